/-
  C07 — Deep equality ignores order and deep copies are independent.

  Model: Gedcom/Model/Equal.lean (`equalsShallow`, `deepEqual`, `deepEqualNodes` — the functions
  the driver runs for `deq` / `deqn`) and Gedcom/Model/Ident.lean (`deepCopy`, `copyTree`,
  `applyMut`, `render` — run for `copy` / `mut`).

  The guard.  Equality of two DATE values (`DateRange.Equals`) is neither symmetric nor transitive
  once constraints are involved (`Bef. 1900` equals `Bef. 1901` but not the other way round;
  `3 Sep 1943` = `Bef. Oct 1943` = `5 Sep 1943` ≠ `3 Sep 1943`).  Because `DeepEqualNodes` matches
  greedily, symmetry, permutation invariance and edit detection are false of the code in general
  (`perm_counterexample`, `symm_counterexample`).  They are proved under the explicit decidable
  guard
      `dateEquiv D = true`   — `dateValueEquals` is symmetric and transitive on the list `D`
      `okNode D t = true`    — every DATE value occurring in `t` is in `D`
  (take `D` = all DATE values of the trees compared; trees without DATE nodes satisfy it with
  `D = []`).  The guard excludes exactly the finding: nothing else is assumed — in particular
  RESI / EVEN nodes with several dates, whose *shallow* `Equals` ("some pair of dates is equal")
  is not transitive, are covered, because `DeepEqual` also matches the children.
  Reflexivity up to copying and every statement about copies hold without a guard.

  Round 4.  The guard is characterised: `laws_iff_guard` / `guard_weakest` (for every `D` outside
  the guard there are trees over `D` on which symmetry or permutation invariance fails — the
  finding's matcher, `¬ dateEquiv` of the DATE values compared, is exactly the set on which the laws
  can fail), `guard_of_plain` (it holds for all values without a before / after constraint),
  `date_equals_symm_iff`, `symm_against_all_iff_plain` (table level: which pairs / which dates).
  Copies: `World.run` — sequences of `DeepCopy` and `Filter`-with-a-tag-filter calls between
  several documents with their record lists, pointer indexes and families caches
  (`copies_documents_only_grow`, `copies_fresh_and_equal`, `copies_pairwise_disjoint`,
  `copy_twice`, `copies_keep_caches_coherent`, `copy_roles_rehomed`, `filter_into_document`).
-/
import Gedcom.Lemmas.EqualLaws
import Gedcom.Lemmas.Ident
import Gedcom.Lemmas.CopyDoc
import Gedcom.Lemmas.DateGuard
import Gedcom.Lemmas.CopySeq
import Gedcom.Lemmas.FilterDoc
import Gedcom.Model.EqualSrc
namespace Gedcom.C07
open Gedcom

/-! ## deep equality -/

/-- FULL.  Every tree is deep-equal to a deep copy of itself, whatever the node kinds involved
    (plain, BIRT/DEAT/BURI/BAPM, RESI, EVEN, DATE incl. phrases and unparsable values, _UID incl.
    malformed ids — the latter only after the repair of `UniqueIDNode.Equals`). -/
theorem deepEqual_copy (ctx : Option (Nat × Str)) (next : Nat) (t c : INode) (n : Nat) (w : List Nat)
    (f : List Str)
    (h : deepCopyIn ctx next t = .ok c n w f) : deepEqual t.erase c.erase = true := by
  unfold deepCopyIn at h
  split at h
  · cases h
  · injection h with h1
    rw [← h1, copyTree_erase]
    exact deepEqual_refl _

/-- FULL (value form of the above). -/
theorem deepEqual_refl (t : Node) : deepEqual t t = true := Gedcom.deepEqual_refl t

/-- PARTIAL (guard).  Deep equality is symmetric.  The unguarded statement
    `∀ a b, deepEqual a b = deepEqual b a` is false: `symm_counterexample`. -/
theorem deepEqual_symm (D : List Str) (hD : dateEquiv D = true) (a b : Node)
    (ha : okNode D a = true) (hb : okNode D b = true) : deepEqual a b = deepEqual b a := by
  apply Bool.eq_iff_iff.mpr
  exact ⟨deepEqual_symm_of_ok D hD a b ha hb, deepEqual_symm_of_ok D hD b a hb ha⟩

/-- PARTIAL (guard).  Deep equality is transitive (with reflexivity and symmetry: an equivalence). -/
theorem deepEqual_trans (D : List Str) (hD : dateEquiv D = true) (a b c : Node)
    (ha : okNode D a = true) (hb : okNode D b = true) (hc : okNode D c = true)
    (h1 : deepEqual a b = true) (h2 : deepEqual b c = true) : deepEqual a c = true :=
  deepEqual_trans_of_ok D hD a b c ha hb hc h1 h2

/-- PARTIAL (guard).  A tree is deep-equal to any re-ordering of its children at any number of
    levels at once.  The unguarded statement `Reorder a b → deepEqual a b` is false:
    `perm_counterexample`. -/
theorem deepEqual_perm (D : List Str) (hD : dateEquiv D = true) (a b : Node) (h : Reorder a b)
    (ha : okNode D a = true) (hb : okNode D b = true) : deepEqual a b = true :=
  deepEqual_of_reorder D hD a.size a b (Nat.le_refl _) h ha hb

/-- PARTIAL (guard).  Trees that differ by one edit — the value of a plain node changed, a node
    inserted or a node deleted, at any position and depth — are never deep-equal.  (Insertions
    and deletions at the top level, and a changed root value, need no guard: the child counts or
    the roots differ; the guard is what makes the difference propagate upwards through the greedy
    matching of the ancestors' sibling lists.) -/
theorem edit_detected (D : List Str) (hD : dateEquiv D = true) (a b : Node) (h : Edit a b)
    (ha : okNode D a = true) (hb : okNode D b = true) : deepEqual a b = false :=
  deepEqual_of_edit D hD h ha hb

/-- The code's `DeepEqualNodes` (greedy, first unused match) decides the existence of a perfect
    matching whenever deep equality behaves on the nodes involved; in general it only implies one. -/
theorem deepEqualNodes_sound (l r : List Node) (h : deepEqualNodes l r = true) :
    G.Matched deepEqual l r := by
  rw [deepEqualNodes_eq_greedy] at h; exact G.greedy_sound _ _ _ h

theorem deepEqualNodes_complete (D : List Str) (hD : dateEquiv D = true) (l r : List Node)
    (hl : ∀ x ∈ l, okNode D x = true) (hr : ∀ x ∈ r, okNode D x = true)
    (h : G.Matched deepEqual l r) : deepEqualNodes l r = true := by
  rw [deepEqualNodes_eq_greedy]
  exact G.greedy_complete_on (okNode D) _
    (fun a b ha hb => deepEqual_symm_of_ok D hD a b ha hb)
    (fun a b c ha hb hc => deepEqual_trans_of_ok D hD a b c ha hb hc) _ _ hl hr h

/-! ## deep copies -/

/-- all existing objects have ids below the allocation counter -/
def Below (next : Nat) (t : INode) : Prop := ∀ i ∈ t.ids, i < next

/-- FULL.  A deep copy shares no node with its source. -/
theorem copy_fresh (ctx : Option (Nat × Str)) (next : Nat) (t c : INode) (n : Nat) (w : List Nat)
    (f : List Str)
    (hb : Below next t) (h : deepCopyIn ctx next t = .ok c n w f) : ∀ i ∈ c.ids, i ∉ t.ids := by
  unfold deepCopyIn at h
  split at h
  · cases h
  · injection h with h1
    intro i hi ht
    rw [← h1] at hi
    have := (copyTree_ids next t).2.1 i hi
    have := hb i ht
    omega

/-- FULL.  A deep copy has the value of its source, hence serialises to identical GEDCOM at every
    indent (and `NoIndent`). -/
theorem copy_render (ctx : Option (Nat × Str)) (next : Nat) (t c : INode) (n : Nat) (w : List Nat)
    (f : List Str)
    (h : deepCopyIn ctx next t = .ok c n w f) (indent : Option Nat) :
    c.erase = t.erase ∧ render indent c.erase = render indent t.erase := by
  unfold deepCopyIn at h
  split at h
  · cases h
  · injection h with h1
    rw [← h1, copyTree_erase]
    exact ⟨rfl, rfl⟩

/-- FULL.  Copying leaves the source untouched: every write of the walk (`AddNode`) goes to an
    object created by the walk. -/
theorem copy_source_untouched (ctx : Option (Nat × Str)) (next : Nat) (t c : INode) (n : Nat) (w : List Nat)
    (f : List Str)
    (hb : Below next t) (h : deepCopyIn ctx next t = .ok c n w f) : ∀ i ∈ w, i ∉ t.ids := by
  unfold deepCopyIn at h
  split at h
  · cases h
  · injection h with _ _ h3
    intro i hi ht
    rw [← h3] at hi
    have := (copyTree_ids next t).2.2 i hi
    have := hb i ht
    omega

/-- FULL.  Changing either never changes the other: a mutation (`AddNode`, `DeleteNode`,
    `SetNodes`) of any object of the copy leaves the source — hence its GEDCOM — as it was, and a
    mutation of any object of the source leaves the copy as it was. -/
theorem copy_frame (ctx : Option (Nat × Str)) (next : Nat) (t c : INode) (n : Nat) (w : List Nat)
    (f : List Str)
    (hb : Below next t) (h : deepCopyIn ctx next t = .ok c n w f) (m : Mut) :
    (m.target ∈ c.ids → applyMut m t = t) ∧ (m.target ∈ t.ids → applyMut m c = c) := by
  have hf := copy_fresh ctx next t c n w f hb h
  exact ⟨fun hc => applyMut_of_not_mem m t (hf _ hc),
    fun ht => applyMut_of_not_mem m c (fun hc => hf _ hc ht)⟩

/-! ## the documents involved (round 2) -/

/-- `deepCopy` of Model/Ident.lean is the case "no family outside the tree" -/
theorem deepCopy_eq (next : Nat) (t : INode) : deepCopy next t = deepCopyIn none next t := rfl

/-- FULL.  After the repair a copy never fails when the role nodes that are not below a FAM node
    have a family to belong to (they always do: HUSB / WIFE / CHIL nodes cannot be constructed
    without one) — in particular a HUSB / WIFE / CHIL node can be the root of the copy. -/
theorem copy_total (fi : Nat) (fp : Str) (next : Nat) (t : INode) :
    ∃ c n w f, deepCopyIn (some (fi, fp)) next t = .ok c n w f := by
  obtain ⟨r, hr, _⟩ := famWalk_isSome (some (fi, fp)) [] t rfl
  unfold deepCopyIn
  rw [hr]
  exact ⟨_, _, _, _, rfl⟩

/-- FULL.  What the copy asks the destination document for: `document.AddFamily(pointer)` exactly
    once per distinct source family that a role node of the walk belongs to, in the order they are
    first met, and nothing else: `f` lists the pointers, `ids` the source families. -/
theorem copy_families (ctx : Option (Nat × Str)) (next : Nat) (t c : INode) (n : Nat)
    (w : List Nat) (f : List Str) (h : deepCopyIn ctx next t = .ok c n w f) :
    f = (firstNew [] (famsUsed ctx t).2).2 ∧
    ∃ ids : List Nat, ids.Nodup ∧ ids.length = f.length ∧
      ∀ g, g ∈ ids ↔ g ∈ (famsUsed ctx t).2.map (·.1) := by
  unfold deepCopyIn at h
  split at h
  · cases h
  · rename_i fam' seen' adds hw
    injection h with _ _ _ h4
    have sp := (famWalk_spec ctx [] t fam' seen' adds hw).2
    have e1 : seen' = (firstNew [] (famsUsed ctx t).2).1 := congrArg Prod.fst sp
    have e2 : adds = (firstNew [] (famsUsed ctx t).2).2 := congrArg Prod.snd sp
    refine ⟨by rw [← h4, e2], seen', ?_, ?_, ?_⟩
    · rw [e1]; exact firstNew_nodup [] _ List.nodup_nil
    · obtain ⟨new, hn, hl⟩ := firstNew_shape [] (famsUsed ctx t).2
      rw [← h4, e1, e2, hn]; simpa using hl
    · intro g; rw [e1, firstNew_mem]; simp

/-- FULL.  Effect on the destination document: it is the old record list followed by one empty
    FAM record (no value, no children, the source family's pointer) per `AddFamily` call, each a
    new object; nothing is removed, reordered or rewritten.  The source document is not an
    argument of the walk at all.  When source and destination are the SAME document this means:
    the source record is still in place and unchanged (so is every other record), no node is
    shared — but the document has gained those empty FAM records (`same_doc_redirected`). -/
theorem copy_doc_effect (ctx : Option (Nat × Str)) (dst : Doc) (next : Nat) (t : INode)
    (r : CopyDocResult) (h : copyIntoDoc ctx dst next t = some r) :
    ∃ fams : List INode, r.doc = dst ++ fams ∧ fams.map (·.ptr) = r.famAdds ∧
      (∀ x ∈ fams, x.tag = tagFAM ∧ x.value = [] ∧ x.kids = []) ∧
      (∀ x ∈ fams, next ≤ x.id ∧ x.id ∉ r.copy.ids) ∧ (fams.map (·.id)).Nodup ∧
      r.doc.take dst.length = dst := by
  unfold copyIntoDoc at h
  split at h
  · cases h
  · rename_i c nx w adds hc
    injection h with h
    obtain ⟨h1, h2, h3, h4⟩ := newFams_spec nx adds
    refine ⟨(newFams nx adds).1, by rw [← h], by rw [← h]; exact h2, h4, ?_, ?_, by rw [← h]; simp⟩
    · intro x hx
      have hid : x.id ∈ List.range' nx adds.length := h3 ▸ List.mem_map_of_mem (f := (·.id)) hx
      have hge := (List.mem_range'_1.mp hid).1
      unfold deepCopyIn at hc
      split at hc
      · cases hc
      · injection hc with hc1 hc2
        have hi := copyTree_ids next t
        rw [← h]
        simp only
        refine ⟨by omega, fun hm => ?_⟩
        rw [← hc1] at hm
        have := (hi.2.1 _ hm).2
        omega
    · rw [h3]; exact List.nodup_range'

/-- FULL.  Copying into the document the source lives in redirects `NodeByPointer(p)` for every
    pointer `p` passed to `AddFamily`: the lookup now finds one of the new, empty FAM records
    (an object that did not exist before), not the source family. -/
theorem same_doc_redirected (ctx : Option (Nat × Str)) (dst : Doc) (next : Nat) (t : INode)
    (r : CopyDocResult) (h : copyIntoDoc ctx dst next t = some r) (p : Str) (hp : p ∈ r.famAdds) :
    ∃ i, r.doc.lookup p = some i ∧ next ≤ i := by
  obtain ⟨fams, hd, hptr, _, hfresh, _, _⟩ := copy_doc_effect ctx dst next t r h
  have hex : ∃ x ∈ fams, x.ptr = p := by
    rw [← hptr] at hp
    obtain ⟨x, hx, e⟩ := List.mem_map.mp hp
    exact ⟨x, hx, e⟩
  obtain ⟨x, hx, hxp⟩ := hex
  unfold Doc.lookup
  rw [hd, List.reverse_append, List.find?_append]
  cases hf : fams.reverse.find? (fun r => r.ptr == p) with
  | none =>
    have := List.find?_eq_none.mp hf x (List.mem_reverse.mpr hx)
    simp [hxp] at this
  | some y =>
    have hy := List.mem_reverse.mp (List.mem_of_find?_eq_some hf)
    exact ⟨y.id, by simp, (hfresh y hy).1⟩

/-! ## sequences of copies between documents (round 4)

  `World` = several documents (record list, pointer index, families cache) and the allocation
  counter; `World.run w ops` performs the `DeepCopy(object, destination)` calls `ops` in order
  (the driver runs it for `copydoc`).  `w.Below`: every object of `w` was allocated before
  `w.next` (true of `⟨docs.map DocSt.ofRecords, n⟩` for documents labelled `0 … n-1`). -/

/-- FULL, every sequence of copies.  Source documents are untouched and the destination gains
    exactly the family records: after the sequence every document is its old record list — the
    same objects, hence the same text — followed by new, empty FAM records (objects allocated by
    the sequence); a document that is the destination of no operation is unchanged. -/
theorem copies_documents_only_grow (w : World) (ops : List CopyOp) (hb : w.Below) :
    (w.run ops).1.Below ∧ World.Grows w (w.run ops).1 ∧
    (∀ k, (∀ op ∈ ops, op.dst ≠ k) → (w.run ops).1.docs[k]? = w.docs[k]?) :=
  run_grows w ops hb

/-- FULL, every sequence (of `DeepCopy` and `Filter`-with-a-tag-filter calls).  Every result has
    the value of its source without the subtrees its filter rejects — for `DeepCopy` the value of
    its source, so it is deep-equal to it and renders identically —, consists only of objects
    allocated by its own operation, and the walk writes only to those. -/
theorem copies_fresh_and_equal (w : World) (ops : List CopyOp) (hb : w.Below) :
    ∀ e ∈ eventsOf (w.run ops).2,
      pruneNode e.op.keep e.source.erase = some e.result.copy.erase ∧
      (e.op.filter = none → e.result.copy.erase = e.source.erase ∧
        deepEqual e.source.erase e.result.copy.erase = true) ∧
      (∀ i ∈ e.result.copy.ids, w.next ≤ i ∧ e.start ≤ i ∧ i < e.result.next) ∧
      (∀ i ∈ e.result.writes, e.start ≤ i ∧ i < e.result.next) ∧
      (∀ d ∈ w.docs, ∀ i ∈ e.result.copy.ids, i ∉ idsList d.nodes) := by
  intro e he
  obtain ⟨h1, _, h3, h4, h5⟩ := (run_events w ops hb).1 e he
  refine ⟨h3, ?_, ?_, h5, run_copies_outside_documents w ops hb e he⟩
  · intro hn
    have : e.op.keep = fun _ => true := by unfold CopyOp.keep; rw [hn]
    rw [this, pruneNode_all] at h3
    injection h3 with h3
    exact ⟨h3.symm, by rw [← h3]; exact Gedcom.deepEqual_refl _⟩
  · intro i hi
    have := h4 i hi
    exact ⟨by omega, this.1, this.2⟩

/-- FULL, every sequence.  Different copies made by a sequence share no object. -/
theorem copies_pairwise_disjoint (w : World) (ops : List CopyOp) (hb : w.Below) :
    (eventsOf (w.run ops).2).Pairwise
      (fun a b => ∀ i ∈ a.result.copy.ids, i ∉ b.result.copy.ids) :=
  run_disjoint w ops hb

/-- FULL, every sequence.  Copying (or filtering with the same filter) the same object of a
    document twice — anywhere in a sequence, into any destinations, the source's own document
    included — gives results that are deep-equal
    to each other and to the source and share no object: an earlier copy never changes what a
    later one copies. -/
theorem copy_twice (w : World) (ops : List CopyOp) (hb : w.Below) (a b : CopyEvent)
    (hab : [a, b].Sublist (eventsOf (w.run ops).2))
    (hsrc : a.op.src = b.op.src) (hnode : a.op.node = b.op.node)
    (hfil : a.op.filter = b.op.filter)
    (hin : ∃ s x, w.docs[a.op.src]? = some s ∧ findRec a.op.node s.nodes = some x) :
    deepEqual a.result.copy.erase b.result.copy.erase = true ∧
    (a.op.filter = none → deepEqual a.source.erase a.result.copy.erase = true) ∧
    (∀ i ∈ a.result.copy.ids, i ∉ b.result.copy.ids) :=
  run_copy_twice w ops hb a b hab hsrc hnode hfil hin

/-- FULL, every sequence.  The pointer index and the families cache of every document stay
    coherent: `NodeByPointer` answers what a scan of the record list would (the record stored last
    under the pointer, so a copied family's pointer now finds the new record), and a cached
    `Families()` slice lists exactly the FAM records, the new ones included. -/
theorem copies_keep_caches_coherent (w : World) (ops : List CopyOp)
    (hc : ∀ d ∈ w.docs, d.coherent) : ∀ d ∈ (w.run ops).1.docs, d.coherent :=
  run_coherent w ops hc

/-- decoded documents start coherent -/
theorem decoded_coherent (recs : List INode) : (DocSt.ofRecords recs).coherent :=
  ofRecords_coherent recs

/-- FULL.  Every role node (HUSB / WIFE / CHIL) of a copy is re-created against the destination:
    the family it belongs to is one of the FAM records its walk added there (objects
    `n … n + adds - 1`), never a family of the source. -/
theorem copy_roles_rehomed (ctx : Option (Nat × Str)) (next : Nat) (t c : INode) (n : Nat)
    (w : List Nat) (adds : List Str) (h : deepCopyIn ctx next t = .ok c n w adds) :
    ∀ f ∈ roleFamilies ctx n t, n ≤ f ∧ f < n + adds.length :=
  roleFamilies_new ctx next t c n w adds h

/-- a family with two role nodes copied twice from document 0 into document 1: two events, the
    second copy's objects follow the first's, document 1 gains two FAM records, document 0 none -/
example :
    let fam : INode := .mk 0 (lit "FAM") [] (lit "F1")
      [.mk 1 (lit "HUSB") (lit "@I1@") [] [], .mk 2 (lit "WIFE") (lit "@I2@") [] []]
    let w : World := ⟨[DocSt.ofRecords [fam], DocSt.ofRecords []], 3⟩
    let r := w.run [{ src := 0, node := 0, dst := 1 }, { src := 0, node := 0, dst := 1 }]
    (eventsOf r.2).map (fun e => (e.result.copy.ids, roleFamilies e.ctx (e.start + 3) e.source)) =
      [([3, 4, 5], [6, 6]), ([7, 8, 9], [10, 10])] ∧
    r.1.docs.map (fun d => d.nodes.map (·.id)) = [[0], [6, 10]] ∧
    r.1.docs.map (fun d => d.nodeByPointer (lit "F1")) = [some 0, some 10] ∧
    r.1.docs.map (·.families) = [[0], [6, 10]] := by decide +kernel

/-! ## `Filter` with a tag filter into another document (round 4) -/

/-- FULL.  `Filter(t, dst, WhitelistTagFilter(…) / BlacklistTagFilter(…))` that returns a node:
    the result has the value of the source without the subtrees of rejected tags, consists of new
    objects only and the walk writes only to them; the destination keeps its records and gains
    exactly one new empty FAM record if the result contains a role node, nothing otherwise; its
    pointer index and families cache stay coherent.  The source document is not an argument. -/
theorem filter_into_document (ctx : Option (Nat × Str)) (dst d' : DocSt) (next : Nat)
    (keep : Str → Bool) (t : INode) (r : CopyDocResult)
    (h : filterIntoDoc ctx dst next keep t = (.ok r, d')) :
    pruneNode keep t.erase = some r.copy.erase ∧
    (∀ i ∈ r.copy.ids, next ≤ i ∧ i < r.next) ∧ (∀ i ∈ r.writes, next ≤ i ∧ i < r.next) ∧
    r.doc = d'.nodes ∧
    (∃ added, d'.nodes = dst.nodes ++ added ∧ added.length = r.famAdds.length ∧
      (added = [] ↔ roleIds r.copy = []) ∧ added.length ≤ 1 ∧
      ∀ x ∈ added, x.tag = tagFAM ∧ x.value = [] ∧ x.kids = [] ∧ next ≤ x.id ∧ x.id < r.next ∧
        x.id ∉ r.copy.ids) ∧
    (dst.coherent → d'.coherent) ∧ next < r.next :=
  filter_effect ctx dst d' next keep t r h

/-- FULL.  `Filter` returns nil exactly when the root's tag is rejected; the destination is then
    untouched. -/
theorem filter_nil_untouched (ctx : Option (Nat × Str)) (dst d' : DocSt) (next : Nat)
    (keep : Str → Bool) (t : INode) (h : filterIntoDoc ctx dst next keep t = (.nil, d')) :
    d' = dst ∧ pruneNode keep t.erase = none ∧ keep t.tag = false :=
  filter_nil ctx dst d' next keep t h

/-- `DeepCopy`'s walk is `Filter`'s walk with the filter that keeps every tag. -/
theorem deep_copy_is_filter_all (next : Nat) (t : INode) :
    filterTree (fun _ => true) next t = some (copyTree next t) := filterTree_all next t

/-- a FAM record filtered into an empty document without its NOTE: two role nodes kept, one FAM
    record added, found under the pointer -/
example :
    let fam : INode := .mk 0 (lit "FAM") [] (lit "F1")
      [.mk 1 (lit "HUSB") (lit "@I1@") [] [], .mk 2 (lit "NOTE") (lit "x") [] [.mk 3 (lit "CHIL") (lit "@I2@") [] []],
       .mk 4 (lit "WIFE") (lit "@I2@") [] []]
    let r := filterIntoDoc (ctxOf fam) (DocSt.ofRecords []) 5 (tagFilter false [lit "NOTE"]) fam
    (match r.1 with | .ok x => some (x.copy.ids, roleIds x.copy, x.famAdds.length) | _ => none) =
      some ([5, 6, 7], [6, 7], 1) ∧
    r.2.nodes.map (·.id) = [8] ∧ r.2.nodeByPointer (lit "F1") = some 8 := by decide +kernel

/-! ## the guard, characterised (round 4) -/

/-- EXACT (table level).  `Date.Equals` — the 4×4 table of date.go, which `date_equals_is_the_source`
    ties to the source — is symmetric on a pair of dates iff the pair is not `asymPair`: both
    non-zero, the same one-sided constraint (before / before or after / after) and different
    `Years()`.  Every other combination of constraints is symmetric. -/
theorem date_equals_symm_iff (a b : PDate) :
    a.equals b = b.equals a ↔ a.asymPair b = false := PDate.equals_symm_iff a b

/-- EXACT (table level).  A non-zero date is symmetric against *every* date iff it carries no
    before / after constraint: each before / after date has a partner (year 1 or year 2 with the
    same constraint) against which `Date.Equals` answers differently in the two directions.  The
    plain class of `guard_of_plain` is therefore the largest class of dates that is safe in every
    company. -/
theorem symm_against_all_iff_plain (a : PDate) (hz : a.isZero = false) :
    (∀ b : PDate, a.equals b = b.equals a) ↔ plainPDate a = true :=
  Gedcom.symm_against_all_iff_plain a hz

/-- `DateNode.Equals` is symmetric on two values unless their start dates or their end dates form
    an asymmetric pair of `Date.Equals` (the driver reports both bits for `dsym`). -/
theorem date_node_equals_symm (a b : Str)
    (hs : (parseDateRange a).start.asymPair (parseDateRange b).start = false)
    (he : (parseDateRange a).end_.asymPair (parseDateRange b).end_ = false) :
    dateValueEquals a b = dateValueEquals b a :=
  dateValueEquals_symm_of_noAsym a b hs he

/-- SUFFICIENT, syntactic.  The guard holds for every set of plain DATE values: values that do not
    parse to a valid range (phrases, unparsable text, zero dates — compared by original string) and
    values neither end of which carries a before / after constraint (exact and about dates,
    ranges of them).  On them `DateRange.Equals` is "same string, or both valid with the same
    day / month / year at both ends" (`dateValueEquals_plain`). -/
theorem guard_of_plain (D : List Str) (h : D.all plainDateValue = true) : dateEquiv D = true :=
  dateEquiv_of_plain D h

/-- WEAKEST.  Outside the guard the laws fail: for every list `D` of DATE values on which
    `DateRange.Equals` is not symmetric and transitive there are trees all of whose DATE values lie
    in `D` on which `DeepEqual` is not symmetric, or which are re-orderings of each other and not
    deep-equal.  So the set of inputs excluded by the guard is exactly the set on which the
    finding can be (and, by these witnesses, is) reproduced. -/
theorem guard_weakest (D : List Str) (h : dateEquiv D = false) :
    (∃ x y, okNode D x = true ∧ okNode D y = true ∧
      deepEqual x y = true ∧ deepEqual y x = false) ∨
    (∃ x y, okNode D x = true ∧ okNode D y = true ∧ Reorder x y ∧ deepEqual x y = false) :=
  Gedcom.guard_weakest D h

/-- EXACT.  For a list `D` of DATE values: symmetry and permutation invariance of `DeepEqual` hold
    for all trees over `D` if and only if the guard holds for `D`. -/
theorem laws_iff_guard (D : List Str) :
    dateEquiv D = true ↔
      ((∀ a b, okNode D a = true → okNode D b = true → deepEqual a b = deepEqual b a) ∧
       (∀ a b, okNode D a = true → okNode D b = true → Reorder a b → deepEqual a b = true)) := by
  constructor
  · intro hD
    exact ⟨fun a b ha hb => deepEqual_symm D hD a b ha hb,
      fun a b ha hb h => deepEqual_perm D hD a b h ha hb⟩
  · intro ⟨hs, hp⟩
    cases hD : dateEquiv D
    · exfalso
      rcases Gedcom.guard_weakest D hD with ⟨x, y, hx, hy, h1, h2⟩ | ⟨x, y, hx, hy, hr, h1⟩
      · rw [hs x y hx hy, h2] at h1; cases h1
      · rw [hp x y hx hy hr] at h1; cases h1
    · rfl

/-- PARTIAL (guard).  The *shallow* `Equals` is symmetric for every kind of node — RESI / EVEN
    with or without DATE children included (their undated form compares the children deeply). -/
theorem equals_symm (D : List Str) (hD : dateEquiv D = true) (a b : Node)
    (ha : okNode D a = true) (hb : okNode D b = true) : equalsShallow a b = equalsShallow b a := by
  apply Bool.eq_iff_iff.mpr
  rw [equalsShallow_eq, equalsShallow_eq]
  exact ⟨equalsSpec_symm_of_ok D hD a b ha hb, equalsSpec_symm_of_ok D hD b a hb ha⟩

/-- PARTIAL (guard).  The shallow `Equals` is transitive through a middle node without DATE
    children (needed for RESI / EVEN only): on undated RESI / EVEN nodes — whose equality depends
    on their children — `Equals` is an equivalence.  Through a dated middle node it is not
    (RESI{1900} = RESI{1900, 1901} = RESI{1901}: C08's finding), while `DeepEqual` is. -/
theorem equals_trans_undated (D : List Str) (hD : dateEquiv D = true) (a b c : Node)
    (ha : okNode D a = true) (hb : okNode D b = true) (hc : okNode D c = true)
    (hund : a.rule = .resi ∨ a.rule = .even → b.dates = [])
    (h1 : equalsShallow a b = true) (h2 : equalsShallow b c = true) :
    equalsShallow a c = true := by
  rw [equalsShallow_eq] at *
  exact equalsSpec_trans_undated D hD a b c ha hb hc hund h1 h2

/-- the plain class is not empty, excludes the one-sided constraints, and the asymmetric pairs are
    real: before 1900 / before 1901 -/
example : plainDateValue (lit "3 Sep 1943") = true ∧ plainDateValue (lit "Abt. 1943") = true ∧
    plainDateValue (lit "(unknown)") = true ∧ plainDateValue (lit "Bet. 1940 and 1950") = true ∧
    plainDateValue (lit "Bef. 1900") = false ∧ plainDateValue (lit "Aft. 3 Sep 1943") = false := by
  decide +kernel
example : PDate.asymPair ⟨0, 0, 1900, .before, false⟩ ⟨0, 0, 1901, .before, false⟩ = true ∧
    PDate.asymPair ⟨0, 0, 1900, .before, false⟩ ⟨0, 0, 1901, .exact, false⟩ = false := by
  decide +kernel
/-- undated RESI nodes whose PLAC children are permuted are `Equals` -/
example : equalsShallow
    (.mk (lit "RESI") [] [] [.mk (lit "PLAC") (lit "a") [] [], .mk (lit "PLAC") (lit "b") [] []])
    (.mk (lit "RESI") [] [] [.mk (lit "PLAC") (lit "b") [] [], .mk (lit "PLAC") (lit "a") [] []]) = true := by
  decide +kernel

/-! ## the Go source, translated (go/ast → Generated/EqualSrc.lean → these theorems) -/

/-- the statements of `BirthNode.Equals` and its three siblings, for the type `X` -/
def vitalEqualsTemplate (x : String) : List String :=
  ["if IsNil(node) { return false }", "if IsNil(node2) { return false }",
   "if _, ok := node2.(*" ++ x ++ "); !ok { return false }", "return true"]

/-- are the translated pieces of `Date.Equals` inside the fragment `EqualSrc.srcDateEquals`
    interprets: four constants, a 4×4 table, every entry a matcher whose body was understood -/
def dateTableUnderstood : Bool :=
  Generated.dateConstraintOrder.length == 4 && !Generated.dateConstraintOrder.contains "?" &&
  Generated.dateEqualsMatchers.length == 4 &&
  Generated.dateEqualsMatchers.all (fun r => r.length == 4 &&
    r.all fun n => Generated.dateMatcherBodies.any fun b =>
      b.1 == n && (b.2.1 == "fields" || b.2.1 == "years" || b.2.1 == "const"))

/-- **Obligation on the regenerated source shape.**  Every piece of decision logic that
    Model/Equal.lean (and, for dates, Model/DateParse.lean) copies by hand has, in the current Go
    source, exactly the statements the model was written from:
    `Date.Equals` opens with the two zero checks and the `Is` shortcut; BIRT / DEAT / BURI / BAPM
    `Equals` only assert the argument's type (rule `.vital`); `DateNode.Equals` delegates to
    `DateRange.Equals` (rule `.date`), whose three branches are phrase / invalid by original string,
    else start and end by `Date.Equals`; `ResidenceNode.Equals` (rule `.resi`): any equal pair of
    dates, else — no date on either side — `DeepEqualNodes` of the PLAC children;
    `EventNode.Equals` (rule `.even`): any equal pair of dates, else — no date on either side and
    equal values — `DeepEqualNodes` of all children; `UniqueIDNode.Equals` (rule `.uid`): UUIDs, raw
    values when either is not one; `DeepEqual`: nil checks, `Equals` unless the same object, equal
    child counts, `DeepEqualNodes`; `DeepEqualNodes`: equal lengths, then for every left node the
    first right node that is not yet used and `DeepEqual` to it. -/
theorem equal_source_shape :
    dateTableUnderstood = true ∧
    Generated.statementsOfBaptismNodeEquals = vitalEqualsTemplate "BaptismNode" ∧
    Generated.statementsOfBirthNodeEquals = vitalEqualsTemplate "BirthNode" ∧
    Generated.statementsOfBurialNodeEquals = vitalEqualsTemplate "BurialNode" ∧
    Generated.statementsOfDeathNodeEquals = vitalEqualsTemplate "DeathNode" ∧
    Generated.dateEqualsGuards =
      [
       "if date.IsZero() { return false }",
       "if date2.IsZero() { return false }",
       "if date.Is(date2) { return true }"] ∧
    Generated.statementsOfDateNodeEquals =
      [
       "leftIsNil := IsNil(node)",
       "rightIsNil := IsNil(node2)",
       "if leftIsNil || rightIsNil { return false }",
       "if date2, ok := node2.(*DateNode); ok { return node.DateRange().Equals(date2.DateRange()) }",
       "return false"] ∧
    Generated.statementsOfDateRangeEquals =
      [
       "if dr.IsPhrase() && dr2.IsPhrase() && dr.originalString == dr2.originalString { return true }",
       "if !dr.IsValid() && !dr2.IsValid() && dr.originalString == dr2.originalString { return true }",
       "matchStartDate := dr.StartDate().Equals(dr2.StartDate())",
       "matchEndDate := dr.EndDate().Equals(dr2.EndDate())",
       "return matchStartDate && matchEndDate"] ∧
    Generated.statementsOfDeepEqual =
      [
       "if IsNil(left) { return false }",
       "if IsNil(right) { return false }",
       "if left != right { if !left.Equals(right) { return false } }",
       "leftNodes := left.Nodes()",
       "rightNodes := right.Nodes()",
       "leftNodesLen := len(leftNodes)",
       "rightNodesLen := len(rightNodes)",
       "if leftNodesLen != rightNodesLen { return false }",
       "return DeepEqualNodes(leftNodes, rightNodes)"] ∧
    Generated.statementsOfDeepEqualNodes =
      [
       "leftLen := len(left)",
       "rightLen := len(right)",
       "if leftLen != rightLen { return false }",
       "matches := map[int]bool{}",
       "for _, leftChild := range left { foundMatch := false for i, rightChild := range right { if !matches[i] && DeepEqual(leftChild, rightChild) { matches[i] = true foundMatch = true break } } if !foundMatch { return false } }",
       "return true"] ∧
    Generated.statementsOfEventNodeEquals =
      [
       "if IsNil(node) { return false }",
       "if IsNil(node2) { return false }",
       "if n2, ok := node2.(*EventNode); ok { leftDates := node.Dates() rightDates := n2.Dates() for _, left := range leftDates { for _, right := range rightDates { if left.Equals(right) { return true } } } if len(leftDates) == 0 && len(rightDates) == 0 && node.Value() == node2.Value() { return DeepEqualNodes(node.Nodes(), node2.Nodes()) } }",
       "return false"] ∧
    Generated.statementsOfResidenceNodeEquals =
      [
       "if IsNil(node) { return false }",
       "if IsNil(node2) { return false }",
       "if n2, ok := node2.(*ResidenceNode); ok { leftDates := node.Dates() rightDates := n2.Dates() for _, left := range leftDates { for _, right := range rightDates { if left.Equals(right) { return true } } } if len(leftDates)+len(rightDates) == 0 { leftPlaces := NodesWithTag(node, TagPlace) rightPlaces := NodesWithTag(node2, TagPlace) return DeepEqualNodes(leftPlaces, rightPlaces) } }",
       "return false"] ∧
    Generated.statementsOfUniqueIDNodeEquals =
      [
       "if IsNil(node) { return false }",
       "if IsNil(node2) { return false }",
       "if n2, ok := node2.(*UniqueIDNode); ok { u1, err1 := node.UUID() u2, err2 := n2.UUID() if err1 != nil || err2 != nil { return node.Value() == n2.Value() } return u1.Equals(u2) }",
       "return false"] := by
  refine ⟨by decide, by decide, by decide, by decide, by decide, rfl, rfl, rfl, rfl, rfl, rfl, rfl, rfl⟩

/-- `SimpleNode.Equals`, interpreted from its translated statements (nil checks, then tag, value
    and pointer in source order), is the model's rule for plain nodes — for all nodes. -/
theorem simple_equals_is_the_source (a b : Node) :
    EqualSrc.srcSimpleEquals a b =
      some (a.tag == b.tag && a.value == b.value && a.ptr == b.ptr) := by
  unfold EqualSrc.srcSimpleEquals
  simp only [Generated.simpleEqualsSteps, EqualSrc.runSimple, EqualSrc.nodeFieldEq]
  cases h1 : a.tag == b.tag <;> cases h2 : a.value == b.value <;> simp

/-- … hence `equalsShallow` of a node that uses the default rule is what the source computes. -/
theorem equalsShallow_simple_is_the_source (a b : Node) (h : a.rule = .simple) :
    EqualSrc.srcSimpleEquals a b = some (equalsShallow a b) := by
  rw [simple_equals_is_the_source]
  unfold equalsShallow
  rw [h]

/-- The dispatch table: the node types that define their own `Equals` in the Go source are exactly
    the kinds to which the model gives a rule other than the default. -/
theorem overrides_are_the_rules (k : String) :
    ruleOfKind k ≠ .simple ↔ k ∈ Generated.equalsOverrides := by
  simp only [Generated.equalsOverrides, List.mem_cons, List.mem_nil_iff, or_false]
  constructor
  · intro h
    by_cases m : k = "BaptismNode" ∨ k = "BirthNode" ∨ k = "BurialNode" ∨ k = "DateNode" ∨
        k = "DeathNode" ∨ k = "EventNode" ∨ k = "ResidenceNode" ∨ k = "UniqueIDNode"
    · exact m
    · exfalso
      apply h
      simp only [not_or] at m
      obtain ⟨h1, h2, h3, h4, h5, h6, h7, h8⟩ := m
      simp [ruleOfKind, h1, h2, h3, h4, h5, h6, h7, h8]
  · rintro (rfl | rfl | rfl | rfl | rfl | rfl | rfl | rfl) <;> decide

/-- `Date.Equals` interpreted from the translated source — guards, the constants' `iota` order,
    the 4×4 composite literal of method values indexed `[date2.Constraint][date.Constraint]`, and
    the bodies of `equalsA..D` — is the model's `PDate.equals` (which `dateValueEquals`, hence every
    DATE comparison of `equalsShallow`, is built from), for all pairs of dates. -/
theorem date_equals_is_the_source (a b : PDate) :
    EqualSrc.srcDateEquals a b = some (PDate.equals a b) := by
  unfold EqualSrc.srcDateEquals PDate.equals
  cases hz : a.isZero <;> cases hz2 : b.isZero <;> simp
  cases hi : a.is b <;> simp
  cases ha : a.constraint <;> cases hb : b.constraint <;>
    simp [EqualSrc.selConstraint, EqualSrc.constraintIndex, EqualSrc.constraintName,
      Generated.dateEqualsRow, Generated.dateEqualsCol, Generated.dateConstraintOrder,
      Generated.dateEqualsMatchers, Generated.dateMatcherBodies, Generated.dateEqualsArgs,
      EqualSrc.runMatcher, EqualSrc.allFields, EqualSrc.dateFieldEq, PDate.sameDMY, ha, hb,
      List.findIdx, List.findIdx.go, List.find?, Bool.and_assoc]

/-! ## non-vacuity (tests on literals) -/

private def ex : Node :=
  .mk (lit "INDI") [] (lit "P1") [.mk (lit "NAME") (lit "A /B/") [] [], .mk (lit "NOTE") (lit "x") [] []]
private def ex' : Node :=
  .mk (lit "INDI") [] (lit "P1") [.mk (lit "NOTE") (lit "x") [] [], .mk (lit "NAME") (lit "A /B/") [] []]

/-- the guard is satisfiable by a non-trivial pair, and the re-ordering is a real one -/
example : dateEquiv [] = true ∧ okNode [] ex = true ∧ okNode [] ex' = true := by decide
example : Reorder ex ex' :=
  .mk (.cons (.mk .nil (List.Perm.refl _)) (.cons (.mk .nil (List.Perm.refl _)) .nil))
    (List.Perm.swap _ _ _)
example : deepEqual ex ex' = true := by decide
/-- an edit that is detected -/
example : Edit ex (.mk (lit "INDI") [] (lit "P1") [.mk (lit "NAME") (lit "A /B/") [] []]) :=
  Edit.delete (pre := [.mk (lit "NAME") (lit "A /B/") [] []]) (post := [])
/-- a copy that succeeds, is fresh, and a mutation that is visible in the copy only -/
example : ∃ c n w f, deepCopy 3 (labelNode 0 ex).1 = .ok c n w f ∧ c.ids = [3, 4, 5] ∧
    (applyMut (.clear 3) c).kids.length = 0 ∧ c.kids.length = 2 ∧ Below 3 (labelNode 0 ex).1 := by
  refine ⟨_, _, _, _, rfl, by decide, by decide, by decide, ?_⟩
  unfold Below; decide
/-- a HUSB node copied on its own: its family (object 7, pointer F1) lies outside the tree; the
    copy succeeds and asks the destination for one family F1 -/
example : ∃ c n w, deepCopyIn (some (7, lit "F1")) 1 (.mk 0 (lit "HUSB") (lit "@I1@") [] []) =
    .ok c n w [lit "F1"] := ⟨_, _, _, rfl⟩
/-- a FAM record with two role nodes copied into a document that already holds it: one empty FAM
    is appended and the pointer now resolves to it (object 6) instead of the source (object 0) -/
example :
    let fam : INode := .mk 0 (lit "FAM") [] (lit "F1")
      [.mk 1 (lit "HUSB") (lit "@I1@") [] [], .mk 2 (lit "WIFE") (lit "@I2@") [] []]
    (copyIntoDoc none [fam] 3 fam).map (fun r => (r.doc.length, r.famAdds.length, r.doc.lookup (lit "F1"))) =
      some (2, 1, some 6) ∧ Doc.lookup [fam] (lit "F1") = some 0 := by decide

/-! ## counterexamples to the unguarded statements (known finding: non-transitive sibling
    equality), replayed on the implementation by the harness -/

private def dn (v : String) : Node := .mk (lit "DATE") (lit v) [] []
/-- BIRT with three DATE children … -/
def permWitness : Node :=
  .mk (lit "BIRT") [] [] [dn "3 Sep 1943", dn "Bef. Oct 1943", dn "5 Sep 1943"]
/-- … and its rotation -/
def permWitness' : Node :=
  .mk (lit "BIRT") [] [] [dn "Bef. Oct 1943", dn "5 Sep 1943", dn "3 Sep 1943"]

theorem permWitness_reorder : Reorder permWitness permWitness' :=
  .mk (.cons (.mk .nil (List.Perm.refl _)) (.cons (.mk .nil (List.Perm.refl _))
      (.cons (.mk .nil (List.Perm.refl _)) .nil)))
    ((List.Perm.swap _ _ _).trans (List.Perm.cons _ (List.Perm.swap _ _ _)))

/-- COUNTEREXAMPLE.  Permutation invariance fails without the guard: the greedy matching pairs
    `3 Sep 1943` with `Bef. Oct 1943`, then `Bef. Oct 1943` with `5 Sep 1943`, and is left with
    `5 Sep 1943` against `3 Sep 1943`. -/
theorem perm_counterexample :
    Reorder permWitness permWitness' ∧ deepEqual permWitness permWitness' = false :=
  ⟨permWitness_reorder, by decide +kernel⟩

/-- COUNTEREXAMPLE.  Symmetry fails without the guard: `Bef. 1900` equals `Bef. 1901`
    (receiver before / argument before: "left.Years() < right.Years()") but not conversely. -/
theorem symm_counterexample :
    deepEqual (dn "Bef. 1900") (dn "Bef. 1901") = true ∧
    deepEqual (dn "Bef. 1901") (dn "Bef. 1900") = false := by
  constructor <;> decide +kernel

/-- the witnesses are excluded by the guard, as they must be -/
example : dateEquiv [lit "3 Sep 1943", lit "Bef. Oct 1943", lit "5 Sep 1943"] = false := by
  decide +kernel

end Gedcom.C07
