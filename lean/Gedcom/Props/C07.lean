/-
  C07 — Deep equality ignores order and deep copies are independent.

  Model: Gedcom/Model/Equal.lean (`equalsShallow`, `deepEqual`, `deepEqualNodes` — the functions
  the driver runs for `deq` / `deqn`) and Gedcom/Model/Ident.lean (`deepCopy`, `copyTree`,
  `applyMut`, `render` — run for `copy` / `mut`).

  The guard.  Equality of two DATE values (`DateRange.Equals`) is neither symmetric nor transitive
  once constraints are involved (`Bef. 1900` equals `Bef. 1901` but not the other way round;
  `3 Sep 1943` = `Bef. Oct 1943` = `5 Sep 1943` ≠ `3 Sep 1943`).  Because `DeepEqualNodes` matches
  greedily, symmetry, permutation invariance and edit detection are false of the code in general
  (`perm_counterexample`, `symm_counterexample`).  They are proved under the explicit decidable
  guard
      `dateEquiv D = true`   — `dateValueEquals` is symmetric and transitive on the list `D`
      `okNode D t = true`    — every DATE value occurring in `t` is in `D`
  (take `D` = all DATE values of the trees compared; trees without DATE nodes satisfy it with
  `D = []`).  The guard excludes exactly the finding: nothing else is assumed — in particular
  RESI / EVEN nodes with several dates, whose *shallow* `Equals` ("some pair of dates is equal")
  is not transitive, are covered, because `DeepEqual` also matches the children.
  Reflexivity up to copying and every statement about copies hold without a guard.
-/
import Gedcom.Lemmas.EqualLaws
import Gedcom.Lemmas.Ident
import Gedcom.Lemmas.CopyDoc
import Gedcom.Model.EqualSrc
namespace Gedcom.C07
open Gedcom

/-! ## deep equality -/

/-- FULL.  Every tree is deep-equal to a deep copy of itself, whatever the node kinds involved
    (plain, BIRT/DEAT/BURI/BAPM, RESI, EVEN, DATE incl. phrases and unparsable values, _UID incl.
    malformed ids — the latter only after the repair of `UniqueIDNode.Equals`). -/
theorem deepEqual_copy (ctx : Option (Nat × Str)) (next : Nat) (t c : INode) (n : Nat) (w : List Nat)
    (f : List Str)
    (h : deepCopyIn ctx next t = .ok c n w f) : deepEqual t.erase c.erase = true := by
  unfold deepCopyIn at h
  split at h
  · cases h
  · injection h with h1
    rw [← h1, copyTree_erase]
    exact deepEqual_refl _

/-- FULL (value form of the above). -/
theorem deepEqual_refl (t : Node) : deepEqual t t = true := Gedcom.deepEqual_refl t

/-- PARTIAL (guard).  Deep equality is symmetric.  The unguarded statement
    `∀ a b, deepEqual a b = deepEqual b a` is false: `symm_counterexample`. -/
theorem deepEqual_symm (D : List Str) (hD : dateEquiv D = true) (a b : Node)
    (ha : okNode D a = true) (hb : okNode D b = true) : deepEqual a b = deepEqual b a := by
  apply Bool.eq_iff_iff.mpr
  exact ⟨deepEqual_symm_of_ok D hD a b ha hb, deepEqual_symm_of_ok D hD b a hb ha⟩

/-- PARTIAL (guard).  Deep equality is transitive (with reflexivity and symmetry: an equivalence). -/
theorem deepEqual_trans (D : List Str) (hD : dateEquiv D = true) (a b c : Node)
    (ha : okNode D a = true) (hb : okNode D b = true) (hc : okNode D c = true)
    (h1 : deepEqual a b = true) (h2 : deepEqual b c = true) : deepEqual a c = true :=
  deepEqual_trans_of_ok D hD a b c ha hb hc h1 h2

/-- PARTIAL (guard).  A tree is deep-equal to any re-ordering of its children at any number of
    levels at once.  The unguarded statement `Reorder a b → deepEqual a b` is false:
    `perm_counterexample`. -/
theorem deepEqual_perm (D : List Str) (hD : dateEquiv D = true) (a b : Node) (h : Reorder a b)
    (ha : okNode D a = true) (hb : okNode D b = true) : deepEqual a b = true :=
  deepEqual_of_reorder D hD a.size a b (Nat.le_refl _) h ha hb

/-- PARTIAL (guard).  Trees that differ by one edit — the value of a plain node changed, a node
    inserted or a node deleted, at any position and depth — are never deep-equal.  (Insertions
    and deletions at the top level, and a changed root value, need no guard: the child counts or
    the roots differ; the guard is what makes the difference propagate upwards through the greedy
    matching of the ancestors' sibling lists.) -/
theorem edit_detected (D : List Str) (hD : dateEquiv D = true) (a b : Node) (h : Edit a b)
    (ha : okNode D a = true) (hb : okNode D b = true) : deepEqual a b = false :=
  deepEqual_of_edit D hD h ha hb

/-- The code's `DeepEqualNodes` (greedy, first unused match) decides the existence of a perfect
    matching whenever deep equality behaves on the nodes involved; in general it only implies one. -/
theorem deepEqualNodes_sound (l r : List Node) (h : deepEqualNodes l r = true) :
    G.Matched deepEqual l r := by
  rw [deepEqualNodes_eq_greedy] at h; exact G.greedy_sound _ _ _ h

theorem deepEqualNodes_complete (D : List Str) (hD : dateEquiv D = true) (l r : List Node)
    (hl : ∀ x ∈ l, okNode D x = true) (hr : ∀ x ∈ r, okNode D x = true)
    (h : G.Matched deepEqual l r) : deepEqualNodes l r = true := by
  rw [deepEqualNodes_eq_greedy]
  exact G.greedy_complete_on (okNode D) _
    (fun a b ha hb => deepEqual_symm_of_ok D hD a b ha hb)
    (fun a b c ha hb hc => deepEqual_trans_of_ok D hD a b c ha hb hc) _ _ hl hr h

/-! ## deep copies -/

/-- all existing objects have ids below the allocation counter -/
def Below (next : Nat) (t : INode) : Prop := ∀ i ∈ t.ids, i < next

/-- FULL.  A deep copy shares no node with its source. -/
theorem copy_fresh (ctx : Option (Nat × Str)) (next : Nat) (t c : INode) (n : Nat) (w : List Nat)
    (f : List Str)
    (hb : Below next t) (h : deepCopyIn ctx next t = .ok c n w f) : ∀ i ∈ c.ids, i ∉ t.ids := by
  unfold deepCopyIn at h
  split at h
  · cases h
  · injection h with h1
    intro i hi ht
    rw [← h1] at hi
    have := (copyTree_ids next t).2.1 i hi
    have := hb i ht
    omega

/-- FULL.  A deep copy has the value of its source, hence serialises to identical GEDCOM at every
    indent (and `NoIndent`). -/
theorem copy_render (ctx : Option (Nat × Str)) (next : Nat) (t c : INode) (n : Nat) (w : List Nat)
    (f : List Str)
    (h : deepCopyIn ctx next t = .ok c n w f) (indent : Option Nat) :
    c.erase = t.erase ∧ render indent c.erase = render indent t.erase := by
  unfold deepCopyIn at h
  split at h
  · cases h
  · injection h with h1
    rw [← h1, copyTree_erase]
    exact ⟨rfl, rfl⟩

/-- FULL.  Copying leaves the source untouched: every write of the walk (`AddNode`) goes to an
    object created by the walk. -/
theorem copy_source_untouched (ctx : Option (Nat × Str)) (next : Nat) (t c : INode) (n : Nat) (w : List Nat)
    (f : List Str)
    (hb : Below next t) (h : deepCopyIn ctx next t = .ok c n w f) : ∀ i ∈ w, i ∉ t.ids := by
  unfold deepCopyIn at h
  split at h
  · cases h
  · injection h with _ _ h3
    intro i hi ht
    rw [← h3] at hi
    have := (copyTree_ids next t).2.2 i hi
    have := hb i ht
    omega

/-- FULL.  Changing either never changes the other: a mutation (`AddNode`, `DeleteNode`,
    `SetNodes`) of any object of the copy leaves the source — hence its GEDCOM — as it was, and a
    mutation of any object of the source leaves the copy as it was. -/
theorem copy_frame (ctx : Option (Nat × Str)) (next : Nat) (t c : INode) (n : Nat) (w : List Nat)
    (f : List Str)
    (hb : Below next t) (h : deepCopyIn ctx next t = .ok c n w f) (m : Mut) :
    (m.target ∈ c.ids → applyMut m t = t) ∧ (m.target ∈ t.ids → applyMut m c = c) := by
  have hf := copy_fresh ctx next t c n w f hb h
  exact ⟨fun hc => applyMut_of_not_mem m t (hf _ hc),
    fun ht => applyMut_of_not_mem m c (fun hc => hf _ hc ht)⟩

/-! ## the documents involved (round 2) -/

/-- `deepCopy` of Model/Ident.lean is the case "no family outside the tree" -/
theorem deepCopy_eq (next : Nat) (t : INode) : deepCopy next t = deepCopyIn none next t := rfl

/-- FULL.  After the repair a copy never fails when the role nodes that are not below a FAM node
    have a family to belong to (they always do: HUSB / WIFE / CHIL nodes cannot be constructed
    without one) — in particular a HUSB / WIFE / CHIL node can be the root of the copy. -/
theorem copy_total (fi : Nat) (fp : Str) (next : Nat) (t : INode) :
    ∃ c n w f, deepCopyIn (some (fi, fp)) next t = .ok c n w f := by
  obtain ⟨r, hr, _⟩ := famWalk_isSome (some (fi, fp)) [] t rfl
  unfold deepCopyIn
  rw [hr]
  exact ⟨_, _, _, _, rfl⟩

/-- FULL.  What the copy asks the destination document for: `document.AddFamily(pointer)` exactly
    once per distinct source family that a role node of the walk belongs to, in the order they are
    first met, and nothing else: `f` lists the pointers, `ids` the source families. -/
theorem copy_families (ctx : Option (Nat × Str)) (next : Nat) (t c : INode) (n : Nat)
    (w : List Nat) (f : List Str) (h : deepCopyIn ctx next t = .ok c n w f) :
    f = (firstNew [] (famsUsed ctx t).2).2 ∧
    ∃ ids : List Nat, ids.Nodup ∧ ids.length = f.length ∧
      ∀ g, g ∈ ids ↔ g ∈ (famsUsed ctx t).2.map (·.1) := by
  unfold deepCopyIn at h
  split at h
  · cases h
  · rename_i fam' seen' adds hw
    injection h with _ _ _ h4
    have sp := (famWalk_spec ctx [] t fam' seen' adds hw).2
    have e1 : seen' = (firstNew [] (famsUsed ctx t).2).1 := congrArg Prod.fst sp
    have e2 : adds = (firstNew [] (famsUsed ctx t).2).2 := congrArg Prod.snd sp
    refine ⟨by rw [← h4, e2], seen', ?_, ?_, ?_⟩
    · rw [e1]; exact firstNew_nodup [] _ List.nodup_nil
    · obtain ⟨new, hn, hl⟩ := firstNew_shape [] (famsUsed ctx t).2
      rw [← h4, e1, e2, hn]; simpa using hl
    · intro g; rw [e1, firstNew_mem]; simp

/-- FULL.  Effect on the destination document: it is the old record list followed by one empty
    FAM record (no value, no children, the source family's pointer) per `AddFamily` call, each a
    new object; nothing is removed, reordered or rewritten.  The source document is not an
    argument of the walk at all.  When source and destination are the SAME document this means:
    the source record is still in place and unchanged (so is every other record), no node is
    shared — but the document has gained those empty FAM records (`same_doc_redirected`). -/
theorem copy_doc_effect (ctx : Option (Nat × Str)) (dst : Doc) (next : Nat) (t : INode)
    (r : CopyDocResult) (h : copyIntoDoc ctx dst next t = some r) :
    ∃ fams : List INode, r.doc = dst ++ fams ∧ fams.map (·.ptr) = r.famAdds ∧
      (∀ x ∈ fams, x.tag = tagFAM ∧ x.value = [] ∧ x.kids = []) ∧
      (∀ x ∈ fams, next ≤ x.id ∧ x.id ∉ r.copy.ids) ∧ (fams.map (·.id)).Nodup ∧
      r.doc.take dst.length = dst := by
  unfold copyIntoDoc at h
  split at h
  · cases h
  · rename_i c nx w adds hc
    injection h with h
    obtain ⟨h1, h2, h3, h4⟩ := newFams_spec nx adds
    refine ⟨(newFams nx adds).1, by rw [← h], by rw [← h]; exact h2, h4, ?_, ?_, by rw [← h]; simp⟩
    · intro x hx
      have hid : x.id ∈ List.range' nx adds.length := h3 ▸ List.mem_map_of_mem (f := (·.id)) hx
      have hge := (List.mem_range'_1.mp hid).1
      unfold deepCopyIn at hc
      split at hc
      · cases hc
      · injection hc with hc1 hc2
        have hi := copyTree_ids next t
        rw [← h]
        simp only
        refine ⟨by omega, fun hm => ?_⟩
        rw [← hc1] at hm
        have := (hi.2.1 _ hm).2
        omega
    · rw [h3]; exact List.nodup_range'

/-- FULL.  Copying into the document the source lives in redirects `NodeByPointer(p)` for every
    pointer `p` passed to `AddFamily`: the lookup now finds one of the new, empty FAM records
    (an object that did not exist before), not the source family. -/
theorem same_doc_redirected (ctx : Option (Nat × Str)) (dst : Doc) (next : Nat) (t : INode)
    (r : CopyDocResult) (h : copyIntoDoc ctx dst next t = some r) (p : Str) (hp : p ∈ r.famAdds) :
    ∃ i, r.doc.lookup p = some i ∧ next ≤ i := by
  obtain ⟨fams, hd, hptr, _, hfresh, _, _⟩ := copy_doc_effect ctx dst next t r h
  have hex : ∃ x ∈ fams, x.ptr = p := by
    rw [← hptr] at hp
    obtain ⟨x, hx, e⟩ := List.mem_map.mp hp
    exact ⟨x, hx, e⟩
  obtain ⟨x, hx, hxp⟩ := hex
  unfold Doc.lookup
  rw [hd, List.reverse_append, List.find?_append]
  cases hf : fams.reverse.find? (fun r => r.ptr == p) with
  | none =>
    have := List.find?_eq_none.mp hf x (List.mem_reverse.mpr hx)
    simp [hxp] at this
  | some y =>
    have hy := List.mem_reverse.mp (List.mem_of_find?_eq_some hf)
    exact ⟨y.id, by simp, (hfresh y hy).1⟩

/-! ## the Go source, translated (go/ast → Generated/EqualSrc.lean → these theorems) -/

/-- the statements of `BirthNode.Equals` and its three siblings, for the type `X` -/
def vitalEqualsTemplate (x : String) : List String :=
  ["if IsNil(node) { return false }", "if IsNil(node2) { return false }",
   "if _, ok := node2.(*" ++ x ++ "); !ok { return false }", "return true"]

/-- are the translated pieces of `Date.Equals` inside the fragment `EqualSrc.srcDateEquals`
    interprets: four constants, a 4×4 table, every entry a matcher whose body was understood -/
def dateTableUnderstood : Bool :=
  Generated.dateConstraintOrder.length == 4 && !Generated.dateConstraintOrder.contains "?" &&
  Generated.dateEqualsMatchers.length == 4 &&
  Generated.dateEqualsMatchers.all (fun r => r.length == 4 &&
    r.all fun n => Generated.dateMatcherBodies.any fun b =>
      b.1 == n && (b.2.1 == "fields" || b.2.1 == "years" || b.2.1 == "const"))

/-- **Obligation on the regenerated source shape.**  Every piece of decision logic that
    Model/Equal.lean (and, for dates, Model/DateParse.lean) copies by hand has, in the current Go
    source, exactly the statements the model was written from:
    `Date.Equals` opens with the two zero checks and the `Is` shortcut; BIRT / DEAT / BURI / BAPM
    `Equals` only assert the argument's type (rule `.vital`); `DateNode.Equals` delegates to
    `DateRange.Equals` (rule `.date`), whose three branches are phrase / invalid by original string,
    else start and end by `Date.Equals`; `ResidenceNode.Equals` (rule `.resi`): any equal pair of
    dates, else — no date on either side — `DeepEqualNodes` of the PLAC children;
    `EventNode.Equals` (rule `.even`): any equal pair of dates, else — no date on either side and
    equal values — `DeepEqualNodes` of all children; `UniqueIDNode.Equals` (rule `.uid`): UUIDs, raw
    values when either is not one; `DeepEqual`: nil checks, `Equals` unless the same object, equal
    child counts, `DeepEqualNodes`; `DeepEqualNodes`: equal lengths, then for every left node the
    first right node that is not yet used and `DeepEqual` to it. -/
theorem equal_source_shape :
    dateTableUnderstood = true ∧
    Generated.statementsOfBaptismNodeEquals = vitalEqualsTemplate "BaptismNode" ∧
    Generated.statementsOfBirthNodeEquals = vitalEqualsTemplate "BirthNode" ∧
    Generated.statementsOfBurialNodeEquals = vitalEqualsTemplate "BurialNode" ∧
    Generated.statementsOfDeathNodeEquals = vitalEqualsTemplate "DeathNode" ∧
    Generated.dateEqualsGuards =
      [
       "if date.IsZero() { return false }",
       "if date2.IsZero() { return false }",
       "if date.Is(date2) { return true }"] ∧
    Generated.statementsOfDateNodeEquals =
      [
       "leftIsNil := IsNil(node)",
       "rightIsNil := IsNil(node2)",
       "if leftIsNil || rightIsNil { return false }",
       "if date2, ok := node2.(*DateNode); ok { return node.DateRange().Equals(date2.DateRange()) }",
       "return false"] ∧
    Generated.statementsOfDateRangeEquals =
      [
       "if dr.IsPhrase() && dr2.IsPhrase() && dr.originalString == dr2.originalString { return true }",
       "if !dr.IsValid() && !dr2.IsValid() && dr.originalString == dr2.originalString { return true }",
       "matchStartDate := dr.StartDate().Equals(dr2.StartDate())",
       "matchEndDate := dr.EndDate().Equals(dr2.EndDate())",
       "return matchStartDate && matchEndDate"] ∧
    Generated.statementsOfDeepEqual =
      [
       "if IsNil(left) { return false }",
       "if IsNil(right) { return false }",
       "if left != right { if !left.Equals(right) { return false } }",
       "leftNodes := left.Nodes()",
       "rightNodes := right.Nodes()",
       "leftNodesLen := len(leftNodes)",
       "rightNodesLen := len(rightNodes)",
       "if leftNodesLen != rightNodesLen { return false }",
       "return DeepEqualNodes(leftNodes, rightNodes)"] ∧
    Generated.statementsOfDeepEqualNodes =
      [
       "leftLen := len(left)",
       "rightLen := len(right)",
       "if leftLen != rightLen { return false }",
       "matches := map[int]bool{}",
       "for _, leftChild := range left { foundMatch := false for i, rightChild := range right { if !matches[i] && DeepEqual(leftChild, rightChild) { matches[i] = true foundMatch = true break } } if !foundMatch { return false } }",
       "return true"] ∧
    Generated.statementsOfEventNodeEquals =
      [
       "if IsNil(node) { return false }",
       "if IsNil(node2) { return false }",
       "if n2, ok := node2.(*EventNode); ok { leftDates := node.Dates() rightDates := n2.Dates() for _, left := range leftDates { for _, right := range rightDates { if left.Equals(right) { return true } } } if len(leftDates) == 0 && len(rightDates) == 0 && node.Value() == node2.Value() { return DeepEqualNodes(node.Nodes(), node2.Nodes()) } }",
       "return false"] ∧
    Generated.statementsOfResidenceNodeEquals =
      [
       "if IsNil(node) { return false }",
       "if IsNil(node2) { return false }",
       "if n2, ok := node2.(*ResidenceNode); ok { leftDates := node.Dates() rightDates := n2.Dates() for _, left := range leftDates { for _, right := range rightDates { if left.Equals(right) { return true } } } if len(leftDates)+len(rightDates) == 0 { leftPlaces := NodesWithTag(node, TagPlace) rightPlaces := NodesWithTag(node2, TagPlace) return DeepEqualNodes(leftPlaces, rightPlaces) } }",
       "return false"] ∧
    Generated.statementsOfUniqueIDNodeEquals =
      [
       "if IsNil(node) { return false }",
       "if IsNil(node2) { return false }",
       "if n2, ok := node2.(*UniqueIDNode); ok { u1, err1 := node.UUID() u2, err2 := n2.UUID() if err1 != nil || err2 != nil { return node.Value() == n2.Value() } return u1.Equals(u2) }",
       "return false"] := by
  refine ⟨by decide, by decide, by decide, by decide, by decide, rfl, rfl, rfl, rfl, rfl, rfl, rfl, rfl⟩

/-- `SimpleNode.Equals`, interpreted from its translated statements (nil checks, then tag, value
    and pointer in source order), is the model's rule for plain nodes — for all nodes. -/
theorem simple_equals_is_the_source (a b : Node) :
    EqualSrc.srcSimpleEquals a b =
      some (a.tag == b.tag && a.value == b.value && a.ptr == b.ptr) := by
  unfold EqualSrc.srcSimpleEquals
  simp only [Generated.simpleEqualsSteps, EqualSrc.runSimple, EqualSrc.nodeFieldEq]
  cases h1 : a.tag == b.tag <;> cases h2 : a.value == b.value <;> simp

/-- … hence `equalsShallow` of a node that uses the default rule is what the source computes. -/
theorem equalsShallow_simple_is_the_source (a b : Node) (h : a.rule = .simple) :
    EqualSrc.srcSimpleEquals a b = some (equalsShallow a b) := by
  rw [simple_equals_is_the_source]
  unfold equalsShallow
  rw [h]

/-- The dispatch table: the node types that define their own `Equals` in the Go source are exactly
    the kinds to which the model gives a rule other than the default. -/
theorem overrides_are_the_rules (k : String) :
    ruleOfKind k ≠ .simple ↔ k ∈ Generated.equalsOverrides := by
  simp only [Generated.equalsOverrides, List.mem_cons, List.mem_nil_iff, or_false]
  constructor
  · intro h
    by_cases m : k = "BaptismNode" ∨ k = "BirthNode" ∨ k = "BurialNode" ∨ k = "DateNode" ∨
        k = "DeathNode" ∨ k = "EventNode" ∨ k = "ResidenceNode" ∨ k = "UniqueIDNode"
    · exact m
    · exfalso
      apply h
      simp only [not_or] at m
      obtain ⟨h1, h2, h3, h4, h5, h6, h7, h8⟩ := m
      simp [ruleOfKind, h1, h2, h3, h4, h5, h6, h7, h8]
  · rintro (rfl | rfl | rfl | rfl | rfl | rfl | rfl | rfl) <;> decide

/-- `Date.Equals` interpreted from the translated source — guards, the constants' `iota` order,
    the 4×4 composite literal of method values indexed `[date2.Constraint][date.Constraint]`, and
    the bodies of `equalsA..D` — is the model's `PDate.equals` (which `dateValueEquals`, hence every
    DATE comparison of `equalsShallow`, is built from), for all pairs of dates. -/
theorem date_equals_is_the_source (a b : PDate) :
    EqualSrc.srcDateEquals a b = some (PDate.equals a b) := by
  unfold EqualSrc.srcDateEquals PDate.equals
  cases hz : a.isZero <;> cases hz2 : b.isZero <;> simp
  cases hi : a.is b <;> simp
  cases ha : a.constraint <;> cases hb : b.constraint <;>
    simp [EqualSrc.selConstraint, EqualSrc.constraintIndex, EqualSrc.constraintName,
      Generated.dateEqualsRow, Generated.dateEqualsCol, Generated.dateConstraintOrder,
      Generated.dateEqualsMatchers, Generated.dateMatcherBodies, Generated.dateEqualsArgs,
      EqualSrc.runMatcher, EqualSrc.allFields, EqualSrc.dateFieldEq, PDate.sameDMY, ha, hb,
      List.findIdx, List.findIdx.go, List.find?, Bool.and_assoc]

/-! ## non-vacuity (tests on literals) -/

private def ex : Node :=
  .mk (lit "INDI") [] (lit "P1") [.mk (lit "NAME") (lit "A /B/") [] [], .mk (lit "NOTE") (lit "x") [] []]
private def ex' : Node :=
  .mk (lit "INDI") [] (lit "P1") [.mk (lit "NOTE") (lit "x") [] [], .mk (lit "NAME") (lit "A /B/") [] []]

/-- the guard is satisfiable by a non-trivial pair, and the re-ordering is a real one -/
example : dateEquiv [] = true ∧ okNode [] ex = true ∧ okNode [] ex' = true := by decide
example : Reorder ex ex' :=
  .mk (.cons (.mk .nil (List.Perm.refl _)) (.cons (.mk .nil (List.Perm.refl _)) .nil))
    (List.Perm.swap _ _ _)
example : deepEqual ex ex' = true := by decide
/-- an edit that is detected -/
example : Edit ex (.mk (lit "INDI") [] (lit "P1") [.mk (lit "NAME") (lit "A /B/") [] []]) :=
  Edit.delete (pre := [.mk (lit "NAME") (lit "A /B/") [] []]) (post := [])
/-- a copy that succeeds, is fresh, and a mutation that is visible in the copy only -/
example : ∃ c n w f, deepCopy 3 (labelNode 0 ex).1 = .ok c n w f ∧ c.ids = [3, 4, 5] ∧
    (applyMut (.clear 3) c).kids.length = 0 ∧ c.kids.length = 2 ∧ Below 3 (labelNode 0 ex).1 := by
  refine ⟨_, _, _, _, rfl, by decide, by decide, by decide, ?_⟩
  unfold Below; decide
/-- a HUSB node copied on its own: its family (object 7, pointer F1) lies outside the tree; the
    copy succeeds and asks the destination for one family F1 -/
example : ∃ c n w, deepCopyIn (some (7, lit "F1")) 1 (.mk 0 (lit "HUSB") (lit "@I1@") [] []) =
    .ok c n w [lit "F1"] := ⟨_, _, _, rfl⟩
/-- a FAM record with two role nodes copied into a document that already holds it: one empty FAM
    is appended and the pointer now resolves to it (object 6) instead of the source (object 0) -/
example :
    let fam : INode := .mk 0 (lit "FAM") [] (lit "F1")
      [.mk 1 (lit "HUSB") (lit "@I1@") [] [], .mk 2 (lit "WIFE") (lit "@I2@") [] []]
    (copyIntoDoc none [fam] 3 fam).map (fun r => (r.doc.length, r.famAdds.length, r.doc.lookup (lit "F1"))) =
      some (2, 1, some 6) ∧ Doc.lookup [fam] (lit "F1") = some 0 := by decide

/-! ## counterexamples to the unguarded statements (known finding: non-transitive sibling
    equality), replayed on the implementation by the harness -/

private def dn (v : String) : Node := .mk (lit "DATE") (lit v) [] []
/-- BIRT with three DATE children … -/
def permWitness : Node :=
  .mk (lit "BIRT") [] [] [dn "3 Sep 1943", dn "Bef. Oct 1943", dn "5 Sep 1943"]
/-- … and its rotation -/
def permWitness' : Node :=
  .mk (lit "BIRT") [] [] [dn "Bef. Oct 1943", dn "5 Sep 1943", dn "3 Sep 1943"]

theorem permWitness_reorder : Reorder permWitness permWitness' :=
  .mk (.cons (.mk .nil (List.Perm.refl _)) (.cons (.mk .nil (List.Perm.refl _))
      (.cons (.mk .nil (List.Perm.refl _)) .nil)))
    ((List.Perm.swap _ _ _).trans (List.Perm.cons _ (List.Perm.swap _ _ _)))

/-- COUNTEREXAMPLE.  Permutation invariance fails without the guard: the greedy matching pairs
    `3 Sep 1943` with `Bef. Oct 1943`, then `Bef. Oct 1943` with `5 Sep 1943`, and is left with
    `5 Sep 1943` against `3 Sep 1943`. -/
theorem perm_counterexample :
    Reorder permWitness permWitness' ∧ deepEqual permWitness permWitness' = false :=
  ⟨permWitness_reorder, by decide +kernel⟩

/-- COUNTEREXAMPLE.  Symmetry fails without the guard: `Bef. 1900` equals `Bef. 1901`
    (receiver before / argument before: "left.Years() < right.Years()") but not conversely. -/
theorem symm_counterexample :
    deepEqual (dn "Bef. 1900") (dn "Bef. 1901") = true ∧
    deepEqual (dn "Bef. 1901") (dn "Bef. 1900") = false := by
  constructor <;> decide +kernel

/-- the witnesses are excluded by the guard, as they must be -/
example : dateEquiv [lit "3 Sep 1943", lit "Bef. Oct 1943", lit "5 Sep 1943"] = false := by
  decide +kernel

end Gedcom.C07
