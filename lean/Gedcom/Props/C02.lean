/-
  C02 — Decoding attaches every line exactly where its level says.
  Property theorems only.  `Dec.decode` is the frame-stack model of `Decoder.Decode` that the
  driver executes (tied to the Go decoder by correspondence on generated and mutated texts ×
  the four option combinations).  `Dec.scan` is the stack-free reference: one pass over the
  lines that yields the preorder listing (level, tag, value, pointer) the line grammar dictates,
  including the documented leniency.  No bound on file size, line length or nesting.
-/
import Gedcom.Lemmas.Listing
import Gedcom.Lemmas.Legal
import Gedcom.Props.C01
import Gedcom.Lemmas.Regex
import Gedcom.Lemmas.MultiLineLegal
import Gedcom.Lemmas.RegexSound
import Gedcom.Generated.DecodeLogic
import Gedcom.Generated.DecodeCont
import Gedcom.Generated.Tags
namespace Gedcom.C02
open Gedcom Gedcom.Dec

/-- **Refinement.** For every byte string and every option combination the decoder's outcome,
    seen through the preorder listing of the document it builds, *is* the reference's outcome:
    same error line, same panic, and on success the same BOM flag and the same sequence of
    (level, header) entries in file order — so no line is dropped, duplicated or re-parented,
    values are trimmed exactly when the reference trims them, record lines carry no value,
    continuation lines extend the previous node, over-deep lines hang one below the previous
    node. -/
theorem decode_eq_spec (o : Opts) (s : Str) : (decode o s).listing = scan o s := by
  unfold decode scan
  simp only
  have hsim := run_sim o ⟨[], [], false⟩ ⟨[], none, false⟩ 1 (splitLines (stripBOM s).2) Sim_init
  cases h1 : run o ⟨[], [], false⟩ 1 (splitLines (stripBOM s).2) with
  | inl out =>
    cases h2 : scanRun o ⟨[], none, false⟩ 1 (splitLines (stripBOM s).2) with
    | inl out' => rw [h1, h2] at hsim; simpa [RunRel] using hsim
    | inr sc => rw [h1, h2] at hsim; simp [RunRel] at hsim
  | inr st =>
    cases h2 : scanRun o ⟨[], none, false⟩ 1 (splitLines (stripBOM s).2) with
    | inl out' => rw [h1, h2] at hsim; simp [RunRel] at hsim
    | inr sc =>
      rw [h1, h2] at hsim
      simp only [RunRel] at hsim
      simp only [Outcome.listing, ScanSt.finish]
      congr 1
      cases hl : sc.last with
      | none =>
        have h2' := hsim.2; rw [hl] at h2'
        obtain ⟨hs, hr, hd⟩ := h2'
        rcases st with ⟨r, stk, sf⟩
        simp only at hs hr; subst hs hr
        simp [trimTop, closeTo, closeN, listingF, hd]
      | some e =>
        have hlist := (stListing_of_sim hsim hl).1
        have hc := closeTo_listing 0 (trimTop st)
        rw [hlist] at hc
        have hlen : (closeTo 0 (trimTop st)).stack = [] := by
          have := closeTo_len 0 (trimTop st) (by simp)
          exact List.eq_nil_of_length_eq_zero this
        simpa [stListing, hlen, frameListing] using hc

/-- **The listing determines the tree.** Two forests with the same preorder listing are the
    same forest (`rebuild` recovers it), so `decode_eq_spec` pins down parent, order and nesting
    of every node, not just the sequence of nodes. -/
theorem listing_injective (f g : Forest) (h : listingF 0 f = listingF 0 g) : f = g := by
  rw [← rebuild_listing f, ← rebuild_listing g, h]

/-- **Descendants.** In a preorder listing, the descendants of a node at level `n` are exactly
    the maximal block of deeper entries that follows its entry (up to the next entry at level
    `≤ n`) … -/
theorem descendants_are_following_block (lvl : Nat) (t v p : Str) (ks : List Node) (rest : List Entry)
    (hrest : ∀ e, rest.head? = some e → e.level ≤ lvl) :
    ((listingT lvl (.mk t v p ks) ++ rest).tail).takeWhile (fun e => decide (lvl < e.level)) =
      listingF (lvl + 1) ks := by
  have : (listingT lvl (.mk t v p ks) ++ rest).tail = listingF (lvl + 1) ks ++ rest := by
    simp [listingT]
  rw [this]
  refine (takeWhile_append_stop _ _ _ ?_ ?_).1
  · intro e he
    have := listingF_levels_ge (lvl + 1) ks e he
    simp; omega
  · intro e he
    have := hrest e he
    simp; omega

/-- … and its children are exactly the entries of level `n+1` in that block, in file order:
    a node at level `n+1` is a child of the nearest preceding node at level `n`, and becomes its
    last child so far. -/
theorem children_are_next_level_entries (lvl : Nat) (ks : List Node) :
    (listingF (lvl + 1) ks).filter (fun e => e.level == lvl + 1) =
      ks.map (fun k => ⟨lvl + 1, ⟨k.tag, k.value, k.ptr⟩⟩) :=
  listingF_roots (lvl + 1) ks

/-- on success, the document *is* the forest rebuilt from the reference's listing -/
theorem decode_is_rebuilt_reference (o : Opts) (s : Str) (d : Doc) (h : decode o s = .ok d) :
    ∃ l, scan o s = .ok d.hasBOM l ∧ d.nodes = rebuild l := by
  have := decode_eq_spec o s
  rw [h] at this
  exact ⟨listingF 0 d.nodes, this.symm, (rebuild_listing d.nodes).symm⟩

/-- every node of the document corresponds to exactly one entry of the reference's listing:
    the number of nodes is the number of entries -/
theorem nodes_account (o : Opts) (s : Str) (d : Doc) (h : decode o s = .ok d) :
    ∃ l, scan o s = .ok d.hasBOM l ∧ Forest.size d.nodes = l.length := by
  obtain ⟨l, h1, _⟩ := decode_is_rebuilt_reference o s d h
  have := decode_eq_spec o s
  rw [h, h1] at this
  simp only [Outcome.listing, ScanOutcome.ok.injEq] at this
  exact ⟨l, h1, by rw [← this.2, listingF_length]⟩

/-- the decoder rejects (error or panic) exactly when the reference does -/
theorem accepts_iff (o : Opts) (s : Str) :
    (∃ d, decode o s = .ok d) ↔ (∃ b l, scan o s = .ok b l) := by
  have := decode_eq_spec o s
  constructor
  · rintro ⟨d, hd⟩; rw [hd] at this; exact ⟨_, _, this.symm⟩
  · rintro ⟨b, l, hs⟩
    rw [hs] at this
    cases hd : decode o s with
    | ok d => exact ⟨d, rfl⟩
    | error n => rw [hd] at this; simp [Outcome.listing] at this
    | panic c => rw [hd] at this; simp [Outcome.listing] at this

/-- whatever the decoder accepts without multi-line continuation is a legal document in the
    sense of C01: word tags, trimmed break-free values, pointers without `@`, record lines
    without value, role nodes after a family -/
theorem decode_legal (o : Opts) (hm : o.allowMultiLine = false) (s : Str) (d : Doc)
    (h : decode o s = .ok d) : C01.Legal d := by
  have hspec := decode_eq_spec o s
  rw [h] at hspec
  unfold scan at hspec
  simp only [Outcome.listing] at hspec
  split at hspec
  · rename_i out hrun
    -- the reference loop stopped early: then its outcome is an error or a panic, not `ok`
    exfalso
    have : ∀ (sc : ScanSt) (n : Nat) (ls : List Str) (out : ScanOutcome),
        scanRun o sc n ls = .inl out → ∀ b l, out ≠ .ok b l := by
      intro sc n ls
      induction ls generalizing sc n with
      | nil => intro out h; simp [scanRun] at h
      | cons x xs ih =>
        intro out h b l
        rw [scanRun] at h
        cases hs : scanStep o sc x with
        | next s1 => rw [hs] at h; exact ih s1 (n + 1) out h b l
        | error => rw [hs] at h; simp only [Sum.inl.injEq] at h; subst h; simp
        | panic c => rw [hs] at h; simp only [Sum.inl.injEq] at h; subst h; simp
    exact this _ _ _ _ hrun _ _ hspec.symm
  · rename_i st hrun
    simp only [ScanOutcome.ok.injEq] at hspec
    have hinv0 : ScanInv ⟨[], none, false⟩ :=
      ⟨by intro e he; simp at he, by intro e he; simp at he, by simp [ScanSt.entries, rolesOKL],
       by simp [ScanSt.entries, famAfterL]⟩
    have hinv := scanRun_inv o hm _ st 1 _ (splitLines_nobreak _) hinv0 hrun
    obtain ⟨hleg, hroles⟩ := finish_legal st hinv
    rw [← hspec.2] at hleg hroles
    exact ⟨legalF_of_listing 0 d.nodes hleg, by rw [(roles_listingF false 0 d.nodes).1]; exact hroles⟩

/-- **Normal form.** Re-encoding a decoded document gives text that decodes (under any
    options) to the same tree, and hence re-encodes to the same bytes.  Proved for decoding
    without `AllowMultiLine`; with it the clause is checked on the implementation for every
    generated input (one known finding, see known_findings.json). -/
theorem normal_form (o : Opts) (hm : o.allowMultiLine = false) (s : Str) (d : Doc)
    (h : decode o s = .ok d) (o' : Opts) :
    decode o' (encode d) = .ok d ∧
    (∀ d', decode o' (encode d) = .ok d' → encode d' = encode d) := by
  have hd := C01.decode_encode d (decode_legal o hm s d h) o'
  refine ⟨hd, ?_⟩
  intro d' h'
  rw [hd] at h'
  simp only [Outcome.ok.injEq] at h'
  rw [h']

/-- no INDI or FAM node carries a value (what the property says of record lines; the known finding
    is the one way the decoder can break it: a continuation line directly after a record line) -/
def NoRecordValue (d : Doc) : Prop :=
  ∀ e ∈ listingF 0 d.nodes, isRecordTag e.hdr.tag = true → e.hdr.value = []

/-- **What the decoder returns is legal, with continuation lines too.** For every byte string and
    every option combination, an accepted stream gives a document that satisfies `legalMLDocB` —
    tags, pointers, role order as in `Legal`; every value in trimmed form without CR; and every
    part of a value after a line feed is a line the loop would again take for a continuation at
    that position — provided no record node has a value.  The proof carries an invariant through
    the reference pass (`ScanInvML`): the open entry's value is a first part plus continuation
    parts, and `TrimSpace` only removes white-space bytes from the two ends, which neither turns a
    continuation part into a node line nor the other way round (`parseLine_extend`,
    `contOKB_prefix`, `OpenML.trim`). -/
theorem decode_legalML (o : Opts) (s : Str) (d : Doc) (h : decode o s = .ok d)
    (hrec : NoRecordValue d) : legalMLDocB d = true := by
  have hspec := decode_eq_spec o s
  rw [h] at hspec
  unfold scan at hspec
  simp only [Outcome.listing] at hspec
  split at hspec
  · rename_i out hrun
    exfalso
    have : ∀ (sc : ScanSt) (n : Nat) (ls : List Str) (out : ScanOutcome),
        scanRun o sc n ls = .inl out → ∀ b l, out ≠ .ok b l := by
      intro sc n ls
      induction ls generalizing sc n with
      | nil => intro out h; simp [scanRun] at h
      | cons x xs ih =>
        intro out h b l
        rw [scanRun] at h
        cases hs : scanStep o sc x with
        | next s1 => rw [hs] at h; exact ih s1 (n + 1) out h b l
        | error => rw [hs] at h; simp only [Sum.inl.injEq] at h; subst h; simp
        | panic c => rw [hs] at h; simp only [Sum.inl.injEq] at h; subst h; simp
    exact this _ _ _ _ hrun _ _ hspec.symm
  · rename_i st hrun
    simp only [ScanOutcome.ok.injEq] at hspec
    have hinv0 : ScanInvML ⟨[], none, false⟩ :=
      ⟨by simp [relL], by simp [ScanSt.entries, famAfterL], by intro e he; simp at he⟩
    have hinv := scanRun_invML o _ st 1 _ (splitLines_nobreak _) hinv0 hrun
    have hrel := finish_relML st hinv
    rw [← hspec.2] at hrel
    unfold legalMLDocB
    rw [legalMLF_listing false 0 d.nodes]
    exact legalMLL_of_rel false _ hrel hrec

/-- **Normal form under `AllowMultiLine`.** Whatever options the stream was decoded with, if the
    document has no record node with a value then re-encoding it gives text that decodes with
    `AllowMultiLine` (with or without `AllowInvalidIndents`) to the same tree and re-encodes to the
    same bytes — including all values that continuation lines made multi-line.  Together with
    `normal_form` (decoding without `AllowMultiLine`, re-decoding under any options) this is the
    property's last sentence for all four option combinations, except on the known finding, where
    it is false (`NoRecordValue` fails there, see the example below); hence `_partial`. -/
theorem normal_form_multiline_partial (o : Opts) (s : Str) (d : Doc) (h : decode o s = .ok d)
    (hrec : NoRecordValue d) (o' : Opts) (hm' : o'.allowMultiLine = true) :
    decode o' (encode d) = .ok d ∧
    (∀ d', decode o' (encode d) = .ok d' → encode d' = encode d) := by
  have hd := C01.decode_encode_multiline d (decode_legalML o s d h hrec) o' hm'
  refine ⟨hd, ?_⟩
  intro d' h'
  rw [hd] at h'
  simp only [Outcome.ok.injEq] at h'
  rw [h']

/-- **The excluded case is real** (the known finding, replayed on the model): the text
    `0 @I1@ INDI` / `foo` is accepted with `AllowMultiLine`, the INDI node gets the value `foo`,
    and the re-encoded text `0 @I1@ INDI foo` decodes to an INDI node *without* value — the normal
    form is not a fixpoint there. -/
theorem normal_form_multiline_counterexample :
    ∃ d, decode ⟨true, false⟩ [48,32,64,73,49,64,32,73,78,68,73,10,102,111,111,10] = .ok d ∧
      decode ⟨true, false⟩ (encode d) ≠ .ok d := by
  refine ⟨⟨false, [.mk [73,78,68,73] [102,111,111] [73,49] []]⟩, ?_, ?_⟩
  · simp [decode, stripBOM, BOM, List.isPrefixOf, splitLines, splitLines.go, run, step, parseLine,
      parsePtr, afterTag, place, unparsable, hdrOf, push, closeTo, closeN, closeOne, trimTop,
      appendTop, isRoleTag, isRecordTag, tINDI, tFAM, tHUSB, tWIFE, tCHIL, isDigit, isWord, LF, CR,
      SP, AT, decToNat, trimSpace, trimLeft, trimLeftRev, trimL, prefLen, spaceSeqs, spaceSeqsRev,
      Frame.close]
  · have : decode ⟨true, false⟩ (encode ⟨false, [.mk [73,78,68,73] [102,111,111] [73,49] []]⟩) =
        .ok ⟨false, [.mk [73,78,68,73] [] [73,49] []]⟩ := by
      simp [encode, encForest, encNode, renderLine, natToDec, decode, stripBOM, BOM,
        List.isPrefixOf, splitLines, splitLines.go, run, step, parseLine,
        parsePtr, afterTag, place, unparsable, hdrOf, push, closeTo, closeN, closeOne, trimTop,
        appendTop, isRoleTag, isRecordTag, tINDI, tFAM, tHUSB, tWIFE, tCHIL, isDigit, isWord, LF, CR,
        SP, AT, decToNat, trimSpace, trimLeft, trimLeftRev, trimL, prefLen, spaceSeqs, spaceSeqsRev,
        Frame.close]
    rw [this]
    simp

/-- the finding's shape is outside the hypothesis: a record line with a value -/
example : legalMLDocB ⟨false, [.mk [73, 78, 68, 73] [102, 111, 111] [73, 49] []]⟩ = false := by
  simp [legalMLDocB, legalMLF, legalMLT, legalHdrMLB, isRecordTag, tINDI, tFAM]

/-! ## The line grammar is the regular expression in the source

`Generated.lineRegex` is translated on every run from the literal given to `regexp.MustCompile`
in decoder.go (regexp/syntax parse tree → `Regex.Re`); `Regex.find` is the backtracking
(leftmost-first) semantics of that fragment.  The model's `parseLine`, which every theorem above
is about, is a deterministic parser with no backtracking; the next theorems show it is the
same function. -/

/-- **Obligation on the regenerated pattern**: it is anchored at the start of the text, it is
    term for term the expression the stage lemmas are proved for, and every class in it is
    ASCII-only or contains all of U+0080…U+10FFFF (so consuming bytes and consuming runes are
    the same thing). -/
theorem line_pattern_is_expected :
    Generated.lineRegexAnchored = true ∧ Generated.lineRegex = Regex.expected ∧
    Generated.lineRegex.byteSafe = true := by decide

/-- **Obligation on the regenerated go/ast facts**: `parseLine` starts from
    `lineRegexp.FindStringSubmatch(line)`, answers "no match" with an error, and reads the
    indent from group 1, the pointer from group 2 without its first byte and its last two, only
    when the group is not empty, the tag from group 3 and the value from group 4. -/
theorem parseLine_uses_submatches :
    Generated.parseLineUsesFind = true ∧ Generated.parseLineErrorOnNoMatch = true ∧
    Generated.indentGroup = 1 ∧ Generated.pointerGroup = 2 ∧ Generated.pointerLo = 1 ∧
    Generated.pointerHi = 2 ∧ Generated.pointerGuarded = true ∧ Generated.tagGroup = 3 ∧
    Generated.valueGroup = 4 := by decide

/-- **The line grammar.** For every line without a line feed, matching the source's regular
    expression (backtracking semantics, all submatches) and extracting the fields the way
    `parseLine` does gives exactly the model's `parseLine`: same lines rejected, same level,
    pointer, tag and value on the others.  No bound on the length of the line. -/
theorem parseLine_is_the_source_regexp (l : Str) (h : LF ∉ l) :
    (Regex.find Generated.lineRegex l).map Regex.fields = parseLine l := by
  rw [line_pattern_is_expected.2.1, Regex.find_expected l h, Regex.fields_lineRes]

/-- **The matcher used above decides the declarative language of the fragment**: the
    backtracking semantics answers "match" exactly when some prefix of the text is in the
    language of the pattern given by the usual inductive rules (`Regex.Matches`; for the line
    pattern, which ends in `$`, the whole text).  So acceptance by `parseLine` is acceptance by
    the source's regular expression in the textbook sense; what remains trusted about the
    semantics is only which submatches leftmost-first priority reports. -/
theorem line_pattern_acceptance (l : Str) :
    (Regex.find Generated.lineRegex l).isSome = true ↔ ∃ r, Regex.Matches Generated.lineRegex l r :=
  Regex.find_isSome_iff Generated.lineRegex l

/-- the hypothesis of `parseLine_is_the_source_regexp` holds for every line the decoder's line
    reader produces, whatever the input bytes -/
theorem decoder_lines_have_no_break (s : Str) : ∀ l ∈ splitLines s, LF ∉ l ∧ CR ∉ l := by
  intro l hl
  have := splitLines_nobreak s l hl
  exact ⟨fun hm => (this LF hm).1 rfl, fun hm => (this CR hm).2 rfl⟩

/-- non-vacuity: `0 @I1@ NAME  a b` through the regular expression -/
example :
    (Regex.find Generated.lineRegex [48, 32, 64, 73, 49, 64, 32, 78, 65, 77, 69, 32, 32, 97, 32, 98]).map
        Regex.fields
      = some ⟨0, [73, 49], [78, 65, 77, 69], [32, 97, 32, 98]⟩ := by decide

/-- non-vacuity: `1 @@ X` is rejected (empty pointer; `\w+` cannot start at `@`) -/
example : (Regex.find Generated.lineRegex [49, 32, 64, 64, 32, 88]).map Regex.fields = none := by
  decide

/-! ## Where a line goes: the level arithmetic is the source's

`Generated/DecodeLogic.lean` is translated on every run from the go/ast expressions of
`Decoder.Decode`: the root test, the over-deep test with its clamp / error / panic branches, the
parent index, and the three cases of the switch with their slice operations
(`append(indents, node)`, `indents[:indent+1]`, `indents[indent] = node`).
`DecodeLogic.srcDecide` interprets them in source order on the numbers `indent`, `len(indents)`. -/

/-- the translated pieces, collected -/
def sourcePieces : DecodeLogic.Pieces :=
  ⟨Generated.rootCond, Generated.overCond, Generated.clampCond, Generated.clampValue,
   Generated.errorCond, Generated.panicOtherwise, Generated.parentIndex, Generated.switchCases,
   Generated.switchDefault⟩

/-- **Obligation**: every expression and slice operation was inside the translator's fragment, and
    the over-deep branch ends in the documented panic -/
theorem decode_logic_translated : sourcePieces.ok = true := by decide

/-- **The three cases of the switch are one rule.** For every level `indent ≥ 0` and every number
    `len ≥ 0` of open levels, interpreting the source's conditions and slice operations gives: a
    root record at level 0; for an over-deep line the clamp to `len` (node stored at index `len`
    below parent `len - 1`), the error when nothing is open, or the panic, according to the
    option; otherwise the node is stored at index `indent`, its parent is `indents[indent-1]`, and
    `indents` ends up with `indent + 1` entries — whether the source appended, truncated or
    replaced.  No slice operation is ever out of bounds. -/
theorem srcDecide_eq_model (indent len : Int) (allow : Bool) (hi : 0 ≤ indent) (hl : 0 ≤ len) :
    DecodeLogic.srcDecide sourcePieces indent len allow = DecodeLogic.modelDecide indent len allow := by
  have defs : ∀ i : Int, DecodeLogic.selectOps i len allow Generated.switchDefault Generated.switchCases =
      if i ≥ len then [.append] else if i < len - 1 then
        [.truncate (.add .indent (.lit 1)), .set .indent] else [.set .indent] := by
    intro i
    by_cases a : i ≥ len <;> by_cases b : i < len - 1 <;>
      simp [a, b, Generated.switchCases, Generated.switchDefault, DecodeLogic.selectOps,
        DecodeLogic.BExp.eval, DecodeLogic.IExp.eval]
  unfold DecodeLogic.srcDecide DecodeLogic.modelDecide sourcePieces
  simp only [defs]
  by_cases h0 : indent = 0
  · simp [h0, Generated.rootCond, DecodeLogic.BExp.eval, DecodeLogic.IExp.eval]
  · by_cases hov : indent - 1 ≥ len
    · cases allow
      · simp [h0, hov, Generated.rootCond, Generated.overCond, Generated.clampCond,
          Generated.errorCond, DecodeLogic.BExp.eval, DecodeLogic.IExp.eval]
      · by_cases hl0 : len = 0
        · have h1i : 1 ≤ indent := by omega
          simp [h0, hov, hl0, h1i, Generated.rootCond, Generated.overCond, Generated.clampCond,
            Generated.errorCond, DecodeLogic.BExp.eval, DecodeLogic.IExp.eval]
        · have hpos : 0 < len := by omega
          have h1 : len - 1 < len := by omega
          have h2 : 0 ≤ len - 1 := by omega
          simp [h0, hov, hl0, hpos, h1, h2, Generated.rootCond, Generated.overCond,
            Generated.clampCond, Generated.clampValue, Generated.parentIndex, DecodeLogic.BExp.eval,
            DecodeLogic.IExp.eval, DecodeLogic.runOps, DecodeLogic.Op.run, DecodeLogic.finish] <;> omega
    · have h1 : indent - 1 < len := by omega
      have h2 : 0 ≤ indent - 1 := by omega
      by_cases hc1 : indent ≥ len
      · -- descending by one: append
        have : indent = len := by omega
        subst this
        simp [h0, hov, h1, h2, Generated.rootCond, Generated.overCond, Generated.parentIndex,
          DecodeLogic.BExp.eval, DecodeLogic.IExp.eval, DecodeLogic.runOps, DecodeLogic.Op.run,
          DecodeLogic.finish] <;> omega
      · by_cases hc2 : indent < len - 1
        · -- back to a parent: truncate, then replace
          have hb1 : indent + 1 ≤ len := by omega
          have hb0 : 0 ≤ indent + 1 := by omega
          have hb2 : indent < indent + 1 := by omega
          simp [h0, hov, h1, h2, hc1, hc2, hb0, hb1, hb2, hi, Generated.rootCond, Generated.overCond,
            Generated.parentIndex, DecodeLogic.BExp.eval, DecodeLogic.IExp.eval, DecodeLogic.runOps,
            DecodeLogic.Op.run, DecodeLogic.finish] <;> omega
        · -- same level: replace
          have hb : indent < len := by omega
          simp [h0, hov, h1, h2, hc1, hc2, hb, hi, Generated.rootCond, Generated.overCond,
            Generated.parentIndex, DecodeLogic.BExp.eval, DecodeLogic.IExp.eval, DecodeLogic.runOps,
            DecodeLogic.Op.run, DecodeLogic.finish]
          have h1i : 1 ≤ indent := by omega
          rw [if_pos h1i]
          have he : len = indent + 1 := by omega
          rw [he]

/-- **… and it is the model's `place`.** On the numbers, the model's `place` is `modelDecide`:
    same root / error / panic verdicts, and on success the open-node stack has exactly the number
    of entries the source's `indents` slice has. -/
theorem place_is_modelDecide (o : Opts) (s : St) (l : Line) :
    match DecodeLogic.modelDecide l.level s.stack.length o.allowInvalidIndents with
    | .root => ∃ s', place o s l = .next s' ∧ s'.stack.length = 1
    | .error => place o s l = .error
    | .panic => place o s l = .panic .indentTooLarge
    | .place n _ _ => ∃ s', place o s l = .next s' ∧ (s'.stack.length : Int) = n
    | .outOfBounds => False := by
  unfold DecodeLogic.modelDecide place
  by_cases h0 : l.level = 0
  · have : ((l.level : Nat) : Int) = 0 := by simp [h0]
    simp only [this, if_true, h0]
    refine ⟨_, rfl, ?_⟩
    have hlen : (trimTop s).stack.length = s.stack.length := by
      rcases s with ⟨r, _ | ⟨f, fs⟩, sf⟩ <;> simp [trimTop]
    simp [push, closeTo_len 0 (trimTop s) (by omega)]
  · have hne : ((l.level : Nat) : Int) ≠ 0 := by simpa using h0
    simp only [hne, if_false, h0]
    by_cases hov : l.level - 1 ≥ s.stack.length
    · have hov' : ((l.level : Nat) : Int) - 1 ≥ (s.stack.length : Int) := by omega
      simp only [hov', if_true, hov]
      cases ha : o.allowInvalidIndents
      · simp
      · simp only [if_true]
        by_cases he : s.stack.isEmpty = true
        · have : s.stack.length = 0 := by
            cases hs : s.stack with
            | nil => rfl
            | cons a b => rw [hs] at he; simp at he
          simp [he, this]
        · have hpos : s.stack.length ≠ 0 := by
            intro e; apply he
            cases hs : s.stack with
            | nil => rfl
            | cons a b => rw [hs] at e; simp at e
          have hpos' : (s.stack.length : Int) ≠ 0 := by omega
          simp only [he, hpos', if_false]
          refine ⟨_, rfl, ?_⟩
          have hlen : (trimTop s).stack.length = s.stack.length := by
            rcases s with ⟨r, _ | ⟨f, fs⟩, sf⟩ <;> simp [trimTop]
          simp [push, hlen]
    · have hov' : ¬ (((l.level : Nat) : Int) - 1 ≥ (s.stack.length : Int)) := by omega
      simp only [hov', if_false, hov]
      refine ⟨_, rfl, ?_⟩
      have hlen : (trimTop s).stack.length = s.stack.length := by
        rcases s with ⟨r, _ | ⟨f, fs⟩, sf⟩ <;> simp [trimTop]
      have := closeTo_len l.level (trimTop s) (by omega)
      simp [push, this]

/-! ## Continuation lines and role tags: the source's rules

`Generated/DecodeCont.lean` is translated on every run from `Decoder.Decode` and `parseLine`: the
condition under which a blank line / a rejected line continues the previous value, what is
appended, the error otherwise, and the tags whose lines need a family. -/

/-- **Obligation**: the translated conditions and appended pieces were inside the translator's
    fragment, both continuation branches `continue`, the other branch returns the error whose
    format starts with the line number, and the family cursor is set from FAM nodes -/
theorem decode_cont_translated :
    Generated.blankCond.ok = true ∧ Generated.contCond.ok = true ∧
    Generated.blankAppend.all (· != .bad) = true ∧ Generated.contAppend.all (· != .bad) = true ∧
    Generated.blankContinues = true ∧ Generated.contContinues = true ∧
    Generated.errorReturns = true ∧ Generated.errorFormat = "line %d: %s" ∧
    Generated.familyCursorSet = true := by decide

/-- **Blank lines.** The model's step on a blank line is the source's rule: when the translated
    condition holds (`previousNode != nil` is "some node is open") the translated bytes are
    appended to the deepest open node's value, otherwise nothing happens; the loop goes on. -/
theorem step_blank_is_source (o : Opts) (s : St) :
    step o s [] = .next
      (if Generated.blankCond.eval o.allowMultiLine (!s.stack.isEmpty) then
        appendTop (DecodeLogic.evalAppend [] Generated.blankAppend) s else s) := by
  simp [step, Generated.blankCond, Generated.blankAppend, DecodeLogic.CExp.eval,
    DecodeLogic.evalAppend, DecodeLogic.SPiece.eval, LF]

/-- **Rejected lines.** A non-blank line that is not in the line grammar continues the previous
    value with exactly the bytes the source appends (`"\n" + line`) under the source's condition,
    and is the error otherwise. -/
theorem step_unparsable_is_source (o : Opts) (s : St) (line : Str) (hne : line ≠ [])
    (hp : parseLine line = none) :
    step o s line =
      if Generated.contCond.eval o.allowMultiLine (!s.stack.isEmpty) then
        .next (appendTop (DecodeLogic.evalAppend line Generated.contAppend) s)
      else .error := by
  simp [step, hne, hp, unparsable, Generated.contCond, Generated.contAppend, DecodeLogic.CExp.eval,
    DecodeLogic.evalAppend, DecodeLogic.SPiece.eval, LF]

/-- **Role tags.** The tags whose lines `parseLine` refuses without a family are exactly the
    model's role tags, and such a line before any family is treated like a rejected line. -/
theorem role_tags_are_source (t : Str) : isRoleTag t = Generated.roleTags.contains t := by
  simp only [isRoleTag, Generated.roleTags, tHUSB, tWIFE, tCHIL, List.contains_cons,
    List.contains_nil, Bool.or_false]
  cases h1 : t == [72, 85, 83, 66] <;> cases h2 : t == [87, 73, 70, 69] <;>
    cases h3 : t == [67, 72, 73, 76] <;> rfl

theorem step_role_without_family_is_source (o : Opts) (s : St) (line : Str) (l : Line)
    (hne : line ≠ []) (hp : parseLine line = some l)
    (hr : Generated.roleTags.contains l.tag = true) (hf : s.seenFam = false) :
    step o s line =
      if Generated.contCond.eval o.allowMultiLine (!s.stack.isEmpty) then
        .next (appendTop (DecodeLogic.evalAppend line Generated.contAppend) s)
      else .error := by
  have hr' : isRoleTag l.tag = true := by rw [role_tags_are_source]; exact hr
  simp [step, hne, hp, hr', hf, unparsable, Generated.contCond, Generated.contAppend,
    DecodeLogic.CExp.eval, DecodeLogic.evalAppend, DecodeLogic.SPiece.eval, LF]

/-- **Record lines carry no value — and only they.** A decode probe of every registered tag and
    an unregistered one (as a root line with and without pointer, and as a child line) finds that
    exactly the INDI and FAM nodes come back without the value written on their line; these are
    the model's record tags (`hdrOf`). -/
theorem record_tags_are_source :
    Generated.valueDroppedTags = ["FAM", "INDI"] ∧
    tFAM = [70, 65, 77] ∧ tINDI = [73, 78, 68, 73] ∧
    ∀ t : Str, isRecordTag t = (t == tINDI || t == tFAM) := by
  refine ⟨by decide, rfl, rfl, fun t => rfl⟩

end Gedcom.C02
