/-
  C04, third part — the model is the source: the decision logic of date.go, translated from the
  Go syntax tree on every run (Generated/DateLogic.lean, harness/extract_datelogic.go), interpreted
  by Model/DateLogic.lean, equals the hand-written model for all inputs.  Property theorems only.
-/
import Gedcom.Generated.DateLogic
import Gedcom.Lemmas.DateGrammar
namespace Gedcom.C04
open Gedcom Gedcom.DateLogic

/-- **The translated pieces are inside the fragment** (a statement, condition, field, table
    entry or matrix cell the translator does not recognise becomes `.bad` / `none`): the `months`
    literal was read completely; every statement of `parseDateParts` and `parseMonthName` was
    recognised, the group positions are 1..4 in the order keyword, day, month, year, the calendar
    check is `time.Parse("_2 1 2006", Sprintf("%d %d %04d", day, month, year))`; `Date.Equals` is
    the three guards, a 4×4 matrix of `equalsA..D` and the indexed call; `equalsB`/`equalsC`
    compare the receiver's `Years()` with the argument's. -/
theorem source_in_fragment :
    Generated.monthsSrc.isSome = true ∧
    Generated.parseSteps.all Stmt.ok = true ∧
    (Generated.monthNameSteps.all (· != .bad)) = true ∧
    (Generated.equalsSteps.all (· != .bad)) = true ∧
    ((Generated.equalsMatrix.getD []).length = 4 ∧
      (Generated.equalsMatrix.getD []).all (fun r => r.length == 4 && r.all (· != .bad)) = true) ∧
    Generated.equalsIndex.isSome = true ∧
    Generated.equalsBCmp.isSome = true ∧ Generated.equalsCCmp.isSome = true := by decide

/-! ## the month table -/

def monthsTable : List (Str × Nat) := Generated.monthsSrc.getD []

theorem lookup_none_of_not_key {l : List (Str × Nat)} {w : Str} (h : ∀ e ∈ l, e.1 ≠ w) :
    l.lookup w = none := by
  induction l with
  | nil => rfl
  | cons a l ih =>
    obtain ⟨k, v⟩ := a
    rw [List.lookup_cons]
    have : (w == k) = false := by
      have := h (k, v) (by simp)
      simpa using fun e => this e.symm
    rw [this]
    exact ih (fun e he => h e (by simp [he]))

/-- two association lists that agree on every key of either agree everywhere -/
theorem lookup_ext {l1 l2 : List (Str × Nat)}
    (h1 : ∀ e ∈ l1, l1.lookup e.1 = l2.lookup e.1) (h2 : ∀ e ∈ l2, l1.lookup e.1 = l2.lookup e.1)
    (w : Str) : l1.lookup w = l2.lookup w := by
  by_cases k1 : ∃ e ∈ l1, e.1 = w
  · obtain ⟨e, he, rfl⟩ := k1; exact h1 e he
  · by_cases k2 : ∃ e ∈ l2, e.1 = w
    · obtain ⟨e, he, rfl⟩ := k2; exact h2 e he
    · rw [lookup_none_of_not_key (fun e he hw => k1 ⟨e, he, hw⟩),
        lookup_none_of_not_key (fun e he hw => k2 ⟨e, he, hw⟩)]

/-- **The model's month table is the `months` literal of date.go** — for every word, not only for
    the candidate words the behavioural probe tries: looking a word up in the translated literal
    gives what the model's `monthOf` (the probed table) gives. -/
theorem months_source_is_table (w : Str) : monthsTable.lookup w = monthOf w := by
  unfold monthOf
  exact lookup_ext (by decide) (by decide) w

/-! ## `parseDateParts` -/

def initial (p : Option DateParts) : St := { parts := p }

/-- interpreting the translated statements of `parseDateParts` (with the translated table and the
    translated `parseMonthName`) on the capture groups -/
def sourceParts (p : Option DateParts) : PDate :=
  run monthsTable Generated.monthNameSteps Generated.parseSteps (initial p)

/-- **`parseDateParts` is its source, statement by statement**: for every outcome of the pattern
    match — no match, or any four groups — running the translated statements in source order
    (numbers from `Atoi` of the day and year groups, month by table lookup of the cleaned
    lower-cased month group, the calendar check, first the rejection "day written and calendar
    check failed", then the rejection "month word written and not in the table", then the date)
    gives exactly the model's result. -/
theorem parse_steps_are_the_model (p : Option DateParts) :
    sourceParts p = (match p with | none => PDate.failed .exact | some q => partsResult q) := by
  cases p with
  | none => rfl
  | some q =>
    simp only [sourceParts, Generated.parseSteps, Generated.monthNameSteps, run, initial, evalCond,
      runMonthName, St.grp, mkDate, zeroDate, srcNat, Stmt.ok, Option.isNone_some, Option.map_some,
      Option.getD_some, months_source_is_table, partsResult]
    cases hmo : monthOf (cleanSpace (lowerStr q.month)) with
    | none =>
      by_cases hd : q.day.isEmpty = true <;> by_cases hm : q.month.isEmpty = true <;>
        by_cases hc : calendarOK (atoi q.day) 0 (atoi q.year) = true <;>
        simp [hmo, hd, hm, hc, PDate.failed]
    | some m =>
      by_cases hd : q.day.isEmpty = true <;> by_cases hm : q.month.isEmpty = true <;>
        by_cases hc : calendarOK (atoi q.day) m (atoi q.year) = true <;>
        simp [hmo, hd, hm, hc, PDate.failed]

/-- the same at the level of strings: the model's `parseDateParts` is the translated source run
    on the model's pattern match -/
theorem parseDateParts_is_the_source (s : Str) : parseDateParts s = sourceParts (matchDate s) := by
  rw [parse_steps_are_the_model]
  cases h : matchDate s with
  | none => exact parseDateParts_of_no_match h
  | some q => exact parseDateParts_of_match h

/-! ## `Date.Equals` -/

def sourceEquals (recv arg : PDate) : Bool :=
  runEquals (Generated.equalsMatrix.getD []) (Generated.equalsIndex.getD (.receiver, .receiver, .receiver, .receiver))
    (Generated.equalsBCmp.getD .receiverLess) (Generated.equalsCCmp.getD .receiverLess)
    Generated.equalsSteps recv arg

/-- **`Date.Equals` is its source**: the two zero guards, the `Is` shortcut, then the cell of the
    translated 4×4 literal selected by (argument's constraint, receiver's constraint) and called
    on (receiver, argument), with `equalsB` = "receiver's Years greater" and `equalsC` = "receiver's
    Years less", is the model's `PDate.equals` for all pairs of dates. -/
theorem equals_is_the_source (recv arg : PDate) : sourceEquals recv arg = recv.equals arg := by
  unfold sourceEquals PDate.equals
  simp only [Generated.equalsSteps, Generated.equalsMatrix, Generated.equalsIndex,
    Generated.equalsBCmp, Generated.equalsCCmp, runEquals, pick, Option.getD_some]
  by_cases hz1 : recv.isZero = true
  · simp [hz1]
  · by_cases hz2 : arg.isZero = true
    · simp [hz1, hz2]
    · by_cases his : recv.is arg = true
      · simp [hz1, hz2, his]
      · simp only [hz1, hz2, his, Bool.false_eq_true, if_false, Bool.or_self]
        cases hc1 : arg.constraint <;> cases hc2 : recv.constraint <;>
          simp [Constraint.toNat, evalCell, evalCmp]

end Gedcom.C04
