/-
  C11 — Matching individuals is a valid one-to-one matching on any schedule.
  Property theorems only, about `Gedcom.Match.winners` / `jobs` / `compare` (what the driver runs).

  A schedule of the goroutine / worker-pool / channel pipeline is modelled by the order in which
  the scored jobs arrive at `calculateWinners`: the theorems quantify over *every* permutation
  `arrival` of the sequential job list — no bound on the number of individuals, jobs or workers.

  Not a theorem (labelled partial in MANIFEST): freedom from data races.  No executable model
  exhibits the Go memory model; the harness runs the implementation under the race detector and
  reports every racing access-site pair (the pairs present today are known findings).

  Guards, explicit and decidable (the driver evaluates them on every generated case):
  `IdsOK L R` — the two lists consist of pairwise distinct nodes; `JobsOK L R (jobs …)` — the
  certain jobs pair no individual twice.  `jobsOK_of_guards` derives the latter from the inputs:
  pointers unique per side (`PtrsOK`), nothing else.

  Two further sources of non-determinism / history are quantified over, not assumed away: the
  resolution `ch` of every `ByUniqueIdentifiers(…)[0]` (sync.Map order) and the sent sets `s0`
  an options value carries over from an earlier `Compare`.
-/
import Gedcom.Lemmas.MatchJobs
namespace Gedcom.C11
open Gedcom Gedcom.Match

variable (L R : List Person) (scoreT scoreF : Nat → Nat → Rat) (prefer minW : Rat)
/- `ch`: how the implementation resolved every choice `ByUniqueIdentifiers(…)[0]` (sync.Map
   iteration order; any `Admissible` resolution); `s0`: the sent sets the options value carries
   when `Compare` starts (empty when fresh, the leftovers of the previous call when reused). -/
variable (ch : Person → Option Person) (s0 : Sent)

/-- every left individual appears in exactly one result, whatever the order of arrival -/
theorem each_left_once (arrival : List Job) (hp : arrival.Perm (jobsFrom ch s0 L R scoreT scoreF prefer))
    (hids : IdsOK L R) (hok : JobsOK L R (jobsFrom ch s0 L R scoreT scoreF prefer))
    (x : Nat) (hx : x ∈ L.map (·.id)) :
    leftCount x (winners L R minW arrival) = 1 :=
  left_once' L R minW arrival hids (jobsOK_perm hp hok) x hx

/-- every right individual appears in exactly one result, whatever the order of arrival -/
theorem each_right_once (arrival : List Job) (hp : arrival.Perm (jobsFrom ch s0 L R scoreT scoreF prefer))
    (hids : IdsOK L R) (hok : JobsOK L R (jobsFrom ch s0 L R scoreT scoreF prefer))
    (x : Nat) (hx : x ∈ R.map (·.id)) :
    rightCount x (winners L R minW arrival) = 1 :=
  right_once' L R minW arrival hids (jobsOK_perm hp hok) x hx

/-- the guard on the jobs follows from guards on the inputs — distinct nodes and pointers unique
    per side — for every admissible resolution of the choices and every initial sent sets.  (Before
    the fix "a right individual is matched by unique identifier only once" this also needed that
    no right individual was a unique-identifier candidate of two left individuals.) -/
theorem jobsOK_of_guards (hadm : Admissible R ch) (hids : IdsOK L R) (hp : PtrsOK L R) :
    JobsOK L R (jobsFrom ch s0 L R scoreT scoreF prefer) :=
  jobsOK_from L R scoreT scoreF prefer ch hadm.choiceOK s0 hids hp

/-- the matching is one-to-one on every schedule, for every resolution of the unique-identifier
    choices and every history of the options value, stated on the inputs alone -/
theorem valid_matching (arrival : List Job)
    (hperm : arrival.Perm (jobsFrom ch s0 L R scoreT scoreF prefer)) (hadm : Admissible R ch)
    (hids : IdsOK L R) (hp : PtrsOK L R) :
    (∀ x ∈ L.map (·.id), leftCount x (winners L R minW arrival) = 1) ∧
    (∀ x ∈ R.map (·.id), rightCount x (winners L R minW arrival) = 1) :=
  ⟨fun x hx => each_left_once L R scoreT scoreF prefer minW ch s0 arrival hperm hids
      (jobsOK_of_guards L R scoreT scoreF prefer ch s0 hadm hids hp) x hx,
   fun x hx => each_right_once L R scoreT scoreF prefer minW ch s0 arrival hperm hids
      (jobsOK_of_guards L R scoreT scoreF prefer ch s0 hadm hids hp) x hx⟩

/-- no result is empty on both sides, and no result mentions a node of neither list (needs no
    guard) -/
theorem no_empty_result (arrival : List Job) (hp : arrival.Perm (jobsFrom ch s0 L R scoreT scoreF prefer))
    (hadm : Admissible R ch) (r : Res) (hr : r ∈ winners L R minW arrival) :
    r ≠ (none, none) ∧ (∀ x, r.1 = some x → x ∈ L.map (·.id)) ∧ (∀ y, r.2 = some y → y ∈ R.map (·.id)) := by
  rcases winners_cases hr with ⟨j, hj, e, _⟩ | ⟨p, hpL, e⟩ | ⟨p, hpR, e⟩
  · obtain ⟨a, ha, b, hb, el, er, _⟩ := jobsFrom_justified L R scoreT scoreF prefer ch hadm.choiceOK s0 j (hp.mem_iff.mp hj)
    subst e
    refine ⟨by simp, ?_, ?_⟩
    · intro x hx; simp only [Option.some.injEq] at hx; rw [← hx, el]; exact List.mem_map.mpr ⟨a, ha, rfl⟩
    · intro y hy; simp only [Option.some.injEq] at hy; rw [← hy, er]; exact List.mem_map.mpr ⟨b, hb, rfl⟩
  · subst e
    refine ⟨by simp, ?_, by simp⟩
    intro x hx; simp only [Option.some.injEq] at hx; rw [← hx]; exact List.mem_map.mpr ⟨p, hpL, rfl⟩
  · subst e
    refine ⟨by simp, by simp, ?_⟩
    intro y hy; simp only [Option.some.injEq] at hy; rw [← hy]; exact List.mem_map.mpr ⟨p, hpR, rfl⟩

/-- paired individuals share a unique identifier, or have the same pointer and a (forced) score of
    at least `PreferPointerAbove`, or reach `MinimumWeightedSimilarity` (needs no guard) -/
theorem paired_reach_threshold_or_certain (arrival : List Job)
    (hp : arrival.Perm (jobsFrom ch s0 L R scoreT scoreF prefer)) (hadm : Admissible R ch) (x y : Nat)
    (hr : (some x, some y) ∈ winners L R minW arrival) :
    ∃ a ∈ L, ∃ b ∈ R, x = a.id ∧ y = b.id ∧
      (SharesUid a b ∨ (a.ptr = b.ptr ∧ prefer ≤ scoreT a.id b.id) ∨ minW ≤ scoreF a.id b.id) := by
  rcases winners_cases hr with ⟨j, hj, e, hc⟩ | ⟨p, _, e⟩ | ⟨p, _, e⟩
  · obtain ⟨a, ha, b, hb, el, er, hjust⟩ := jobsFrom_justified L R scoreT scoreF prefer ch hadm.choiceOK s0 j (hp.mem_iff.mp hj)
    simp only [Prod.mk.injEq, Option.some.injEq] at e
    refine ⟨a, ha, b, hb, by rw [e.1, el], by rw [e.2, er], ?_⟩
    rcases hjust with ⟨_, h | h⟩ | ⟨hf, hs⟩
    · exact Or.inl h
    · exact Or.inr (Or.inl h)
    · rcases hc with hc | hc
      · rw [hf] at hc; cases hc
      · rw [hs] at hc; exact Or.inr (Or.inr hc)
  · simp at e
  · simp at e

/-- when no two candidate pairs (uncertain results at or above the threshold) tie on score, every
    order of arrival gives the result of the sequential run, up to the order in which the results
    are listed; ties below the threshold (e.g. the pairs the early exit scores 0) are harmless -/
theorem schedule_independent (arrival : List Job) (hp : arrival.Perm (jobsFrom ch s0 L R scoreT scoreF prefer))
    (hn : NoScoreTies minW (jobsFrom ch s0 L R scoreT scoreF prefer)) :
    (winners L R minW arrival).Perm (winners L R minW (jobsFrom ch s0 L R scoreT scoreF prefer)) :=
  winners_perm L R minW hp hn

/-- the jobs themselves are what the property says they are (any job list the pipeline can see is
    a permutation of this one) -/
theorem jobs_justified (hadm : Admissible R ch) (j : Job)
    (hj : j ∈ jobsFrom ch s0 L R scoreT scoreF prefer) :
    Justified L R scoreT scoreF prefer j :=
  jobsFrom_justified L R scoreT scoreF prefer ch hadm.choiceOK s0 j hj

/-! ## regression witness of defect 11 -/

def dupL : List Person := [⟨0, [73, 49], [[1]]⟩, ⟨1, [73, 50], [[1]]⟩]
def dupR : List Person := [⟨10, [80, 49], [[1]]⟩]

/-- two left individuals with the unique identifier of one right individual: the first one keeps
    the match, the second one is left over, the right individual is in one result (it was in two
    before the fix) -/
theorem dup_uid_regression :
    IdsOK dupL dupR ∧ PtrsOK dupL dupR ∧
    compare dupL dupR (fun _ _ => 0) (fun _ _ => 0) 0 1 = [(some 0, some 10), (some 1, none)] ∧
    rightCount 10 (compare dupL dupR (fun _ _ => 0) (fun _ _ => 0) 0 1) = 1 := by
  decide +kernel

/-! ## Non-vacuity (tests on literals) -/

def exL : List Person := [⟨0, [73, 49], [[1]]⟩, ⟨1, [73, 50], []⟩, ⟨2, [73, 51], []⟩]
def exR : List Person := [⟨10, [80, 49], []⟩, ⟨11, [73, 50], []⟩, ⟨12, [80, 51], [[1]]⟩, ⟨13, [80, 52], []⟩]
def exF : Nat → Nat → Rat := fun l r => if l = 2 ∧ r = 10 then 9 / 10 else if l = 2 ∧ r = 13 then 8 / 10 else 0

-- one unique-id job (0-12), one pointer job (1-11), a remaining matrix with a winner (2-10):
-- the guards hold and there are jobs of all three kinds
example : IdsOK exL exR ∧ PtrsOK exL exR ∧
    JobsOK exL exR (jobs exL exR (fun _ _ => 1) exF (1 / 2)) := by decide +kernel
example : compare exL exR (fun _ _ => 1) exF (1 / 2) (1 / 2) =
    [(some 0, some 12), (some 1, some 11), (some 2, some 10), (none, some 13)] := by decide +kernel
-- NoScoreTies is satisfiable with several candidate pairs, and with ties below the threshold
example : NoScoreTies (1 / 2) [⟨2, 10, false, 9 / 10⟩, ⟨2, 13, false, 8 / 10⟩, ⟨2, 11, false, 0⟩, ⟨2, 12, false, 0⟩,
    ⟨0, 12, true, 0⟩, ⟨1, 11, true, 0⟩] := by
  decide +kernel
example : NoScoreTies (1 / 2) (jobs exL exR (fun _ _ => 1) exF (1 / 2)) := by decide +kernel

-- an ambiguous choice: left 0 carries two identifiers that select right 12 and right 13; the guards
-- hold, and both resolutions give a valid matching (0-12 resp. 0-13)
def amL : List Person := [⟨0, [73, 49], [[1], [2]]⟩, ⟨1, [73, 50], []⟩]
def amR : List Person := [⟨12, [80, 51], [[1]]⟩, ⟨13, [80, 52], [[2]]⟩]
example : IdsOK amL amR ∧ PtrsOK amL amR ∧
    (uniqueCands amR amL[0]).map (·.id) = [12, 13] := by decide +kernel
example : winners amL amR 1 (jobsFrom (fun a => if a.id = 0 then some amR[1] else none) ⟨[], []⟩ amL amR
      (fun _ _ => 0) (fun _ _ => 0) 1) = [(some 0, some 13), (some 1, none), (none, some 12)] := by
  decide +kernel
-- a second Compare with the same options value: the certain pairs 0-12 and 1-11 of the first call
-- are not found again (their pointers are still marked as sent), the result is still a valid
-- matching
example : winners exL exR (1 / 2) (jobsFrom (uniqueTarget exR)
      (sentAfter (uniqueTarget exR) ⟨[], []⟩ exL exR (fun _ _ => 1) (1 / 2)) exL exR (fun _ _ => 1) exF (1 / 2)) =
    [(some 2, some 10), (some 0, none), (some 1, none), (none, some 11), (none, some 12), (none, some 13)] := by
  decide +kernel

end Gedcom.C11
