/-
  C17 — the decision logic of the model *is* the decision logic of the source.

  `Generated/LivingSrc.lean` is written on every run by a go/ast translator
  (harness/extract_livingsrc.go) from individual_node.go and html/*.go.  Here:
  (1) `living_source_in_fragment`: everything translated is inside the target language (no `.bad`,
      the expected number of switches, no `default`, every visibility constant in exactly one case);
  (2) `isLiving_is_the_source`: running the early returns and the final return of `IsLiving` in
      source order is `Living.isLiving` for all inputs;
  (3) `*_is_the_source`: each component of Model/Living.lean (and the filters of Model/Pages.lean) is
      what its translated `switch <visibility>` / `if` says — which case writes nothing, which the
      placeholder literal, which skips the row, which carries on — for all people and visibilities.
-/
import Gedcom.Model.Pages
import Gedcom.Generated.LivingSrc
namespace Gedcom.C17
open Gedcom Gedcom.Living Gedcom.LivingSrc Gedcom.Generated

def code : Vis → Nat
  | .show => 0
  | .hide => 1
  | .placeholder => 2

/-- the i-th translated switch of a function (a missing one has a `default`, i.e. is rejected) -/
def swAt (l : List Sw) (i : Nat) : Sw := l.getD i ⟨false, [], true⟩

def allSwitches : List (List Sw × Nat) :=
  [(srcNameSwitches, 1), (srcLinkSwitches, 1), (srcButtonSwitches, 2), (srcPageIndividualSwitches, 1),
   (srcPlaceEventSwitches, 1), (srcListPageSwitches, 1), (srcSurnameIndexSwitches, 1), (srcSendIndividualSwitches, 1),
   (srcPartnersSwitches, 1), (srcPartnerSectionSwitches, 1), (srcIndexLettersSwitches, 1)]

/-- Everything the translator produced is inside the fragment: `IsLiving` has the expected shape and
    conditions, every function has the expected number of visibility switches, none has a
    `default`, no case has an unknown constant or body, each visibility is handled by exactly one
    case, and the `if`s of IndividualDates / Publisher.Places are recognised. -/
theorem living_source_in_fragment :
    srcIsLivingShape = true ∧ srcIsLivingGuards.all (fun g => g.1.ok) = true ∧ srcIsLivingFinal.ok = true ∧
    allSwitches.all (fun e => e.1.length == e.2 && e.1.all (fun s => s.ok && s.exhaustive)) = true ∧
    (srcDatesConds.length == 2 && srcDatesConds.all (fun c => c.1.ok && c.2 != .bad)) = true ∧
    (srcPlacesFilterConds.length == 1 && srcPlacesFilterConds.all (fun c => c.1.ok && c.2 != .bad)) = true := by
  decide

/-! ## IsLiving -/

/-- Running `IsLiving` as written — `if node == nil`, `if len(deaths) > 0`, `if maxLivingAge == 0`,
    `return birthYear == 0 || age <= maxLivingAge`, in that order — is the model's `isLiving`, for
    every number of deaths, birth year (millionths), current year and maximum living age. -/
theorem isLiving_is_the_source (deaths birthMicro now maxAge : Nat) :
    runReturns { nodeNil := false, deaths := deaths, maxAge := maxAge, birthMicro := birthMicro, now := now }
      srcIsLivingGuards srcIsLivingFinal = isLiving (decide (deaths > 0)) birthMicro now maxAge := by
  simp only [srcIsLivingGuards, srcIsLivingFinal, runReturns, Cond.eval, Num.eval, Cmp.eval, isLiving]
  by_cases hd : deaths > 0
  · have : ((deaths : Int) - 0).toNat ≠ 0 := by omega
    simp [hd, this]
    omega
  · have h0 : deaths = 0 := by omega
    subst h0
    by_cases hm : maxAge = 0
    · simp [hm]
    · by_cases hb : birthMicro = 0
      · simp [hb]
      · rw [Bool.eq_iff_iff]
        simp [hm, hb]
        omega

/-- a nil individual is not living (`node == nil` is the first test) -/
theorem isLiving_nil_is_the_source (e : Env) (h : e.nodeNil = true) :
    runReturns e srcIsLivingGuards srcIsLivingFinal = false := by
  simp [srcIsLivingGuards, runReturns, Cond.eval, h]

/-! ## the components -/

/-- `IndividualName`: under `isLiving`, the case of the visibility decides — nothing, the literal, or
    carry on to the name. -/
theorem name_is_the_source (p : Person) (v : Vis) :
    individualName (some p) v =
      (if (swAt srcNameSwitches 0).underLiving && p.pub.living then
        match (swAt srcNameSwitches 0).act (code v) with
        | .nothing => .nothing
        | .lit s => .raw s
        | _ => individualName (some p) .show
      else individualName (some p) .show) := by
  cases v <;> cases hl : p.pub.living <;>
    simp [individualName, hl, swAt, srcNameSwitches, Sw.act, code]

/-- `PageIndividual`: "#" exactly in the cases that return it. -/
theorem pageIndividual_is_the_source (p : Person) (v : Vis) :
    pageIndividual (some p) v =
      (if (swAt srcPageIndividualSwitches 0).underLiving && p.pub.living &&
          (swAt srcPageIndividualSwitches 0).act (code v) == .hash then hashHref else p.priv.page) := by
  cases v <;> cases hl : p.pub.living <;>
    simp [pageIndividual, hidden, hl, swAt, srcPageIndividualSwitches, Sw.act, code]

/-- `IndividualLink`: nothing exactly in the case that returns `writeNothing()`. -/
theorem link_is_the_source (p : Person) (v : Vis) :
    individualLink (some p) v =
      (if (swAt srcLinkSwitches 0).underLiving && p.pub.living && (swAt srcLinkSwitches 0).act (code v) == .nothing
       then .nothing
       else .link (pageIndividual (some p) v) [.dot p.pub.sex, individualName (some p) v]) := by
  cases v <;> cases hl : p.pub.living <;>
    simp [individualLink, hl, swAt, srcLinkSwitches, Sw.act, code]

/-- `IndividualButton`: its two switches. -/
theorem button_is_the_source (p : Person) (v : Vis) :
    individualButton (some p) v =
      (if (swAt srcButtonSwitches 0).underLiving && p.pub.living && (swAt srcButtonSwitches 0).act (code v) == .nothing
       then .nothing
       else if (swAt srcButtonSwitches 1).underLiving && p.pub.living then
        match (swAt srcButtonSwitches 1).act (code v) with
        | .nothing => .nothing
        | .hiddenButton => .button p.pub.sex none (.raw "<em>Hidden</em>") (individualDates (some p) v)
        | _ => .button p.pub.sex (some (pageIndividual (some p) v)) (individualName (some p) v) (individualDates (some p) v)
       else .button p.pub.sex (some (pageIndividual (some p) v)) (individualName (some p) v) (individualDates (some p) v)) := by
  cases v <;> cases hl : p.pub.living <;>
    simp [individualButton, hl, swAt, srcButtonSwitches, Sw.act, code]

/-- `PlaceEvent`: no row, the row without the person, or the row with the link. -/
theorem placeEvent_is_the_source (p : Person) (date : Str) (descr : String) (v : Vis) :
    placeEvent (some p) date descr v =
      (if (swAt srcPlaceEventSwitches 0).underLiving && p.pub.living then
        match (swAt srcPlaceEventSwitches 0).act (code v) with
        | .nothing => .nothing
        | .emptyPerson => .row [.text date, .raw descr, .raw "&nbsp;"]
        | _ => .row [.text date, .raw descr, individualLink (some p) v]
      else .row [.text date, .raw descr, individualLink (some p) v]) := by
  cases v <;> cases hl : p.pub.living <;>
    simp [placeEvent, hl, swAt, srcPlaceEventSwitches, Sw.act, code]

/-- the two `if`s of `IndividualDates` -/
theorem dates_is_the_source (p : Person) (v : Vis) :
    individualDates (some p) v =
      (let e : Env := { living := p.pub.living, vis := code v }
       match srcDatesConds.find? (fun c => c.1.eval e) with
       | some (_, .nothing) => .nothing
       | some (_, .lit s) => .raw s
       | _ => .text p.priv.dates) := by
  cases v <;> cases hl : p.pub.living <;>
    simp [individualDates, hl, srcDatesConds, Cond.eval, code]

/-! ## the filters -/

/-- a living person is skipped by a loop exactly in the cases whose body is `continue` -/
def skips (s : Sw) (living : Bool) (v : Vis) : Bool :=
  s.underLiving && living && (s.act (code v) == .skip || s.act (code v) == .skipCounted)

/-- the row loop of `IndividualListPage` -/
theorem listRows_is_the_source (ps : List Person) (v : Vis) :
    listRows ps v = (ps.filter (fun p => !skips (swAt srcListPageSwitches 0) p.pub.living v)).map (fun p => listRow p v) := by
  unfold listRows
  congr 1
  apply List.filter_congr
  intro p _
  cases v <;> cases hl : p.pub.living <;>
    simp [hidden, hl, skips, swAt, srcListPageSwitches, Sw.act, code]

/-- `sendIndividualFiles`: who gets a page -/
theorem individualPages_is_the_source (ps : List Person) (v : Vis) :
    individualPages ps v =
      (ps.filter (fun p => !skips (swAt srcSendIndividualSwitches 0) p.pub.living v)).map (fun p => p.priv.page) := by
  unfold individualPages
  congr 1
  apply List.filter_congr
  intro p _
  cases v <;> cases hl : p.pub.living <;>
    simp [hidden, hl, skips, swAt, srcSendIndividualSwitches, Sw.act, code]

/-- `SurnameIndex`: whose surname becomes a pill -/
theorem surnameIndex_is_the_source (ps : List Person) (v : Vis) (sel : Person → Bool) :
    surnameIndex ps v sel =
      (((ps.filter (fun p => !skips (swAt srcSurnameIndexSwitches 0) p.pub.living v)).filter sel).map
        (fun p => p.priv.surname)).eraseDups := by
  unfold surnameIndex
  congr 3
  apply List.filter_congr
  intro p _
  cases v <;> cases hl : p.pub.living <;>
    simp [hidden, hl, skips, swAt, srcSurnameIndexSwitches, Sw.act, code]

/-- `partnerSection`: which children get a button -/
theorem partnerChildren_is_the_source (cs : List Person) (v : Vis) :
    partnerChildren cs v =
      (cs.filter (fun c => !skips (swAt srcPartnerSectionSwitches 0) c.pub.living v)).map (fun c => individualButton (some c) v) := by
  unfold partnerChildren
  congr 1
  apply List.filter_congr
  intro p _
  cases v <;> cases hl : p.pub.living <;>
    simp [hl, skips, swAt, srcPartnerSectionSwitches, Sw.act, code] <;> decide

/-- `PartnersAndChildren` (page model): which partners and children are kept -/
theorem keepChild_is_the_source (c : Pages.PPerson) (v : Vis) :
    Pages.keepChild v (some c) = !skips (swAt srcPartnersSwitches 0) c.pub.living v := by
  cases v <;> cases hl : c.pub.living <;>
    simp [Pages.keepChild, hl, skips, swAt, srcPartnersSwitches, Sw.act, code] <;> decide

/-- `GetIndexLetters`: who contributes a letter — everybody, or (hide) the people who are not living -/
theorem lettersFrom_is_the_source (ps : List Person) (v : Vis) :
    lettersFrom generatedFlags ps v =
      (match (swAt srcIndexLettersSwitches 0).act (code v) with
       | .addLetter => ps
       | .addLetterIfDead => ps.filter (fun p => !p.pub.living)
       | _ => []) := by
  have hs : generatedFlags.hideLettersFromDead = true := by decide
  cases v <;> simp [lettersFrom, hs, swAt, srcIndexLettersSwitches, Sw.act, code]

/-- `Publisher.Places`: an event is left out exactly when the translated condition holds
    (hide mode and the owner is living) -/
theorem placeFilter_is_the_source (living : Bool) (v : Vis) :
    (generatedFlags.placesRespectHide && living && v == .hide) =
      srcPlacesFilterConds.any (fun c => c.2 == .skip && c.1.eval { ownerLiving := living, vis := code v }) := by
  have hs : generatedFlags.placesRespectHide = true := by decide
  cases v <;> cases living <;> simp [hs, srcPlacesFilterConds, Cond.eval, code]

end Gedcom.C17
