/-
  C19 — Publishing yields a closed, confined, deterministic set of files.
  Property theorems only, about the functions the driver executes (`sanitize`, `uniqueKey`,
  `individualKeys`, `placeEntries`, `Page*`, `Site.fileNames`, `runSched`) and about the transition
  system of the publish protocol, with the facts regenerated from the code (`Generated.Publish`).
  Unbounded: all names, all documents, all job counts ≥ 1, all writers (any failure pattern),
  all schedules.
-/
import Gedcom.Lemmas.PublishNames
import Gedcom.Lemmas.PublishProtocol
import Gedcom.Generated.PublishSrc
namespace Gedcom.C19
open Gedcom Gedcom.Publish

/-! ## (ii) The publish protocol -/

/-- the facts of the error path the protocol model is built on, as found in the code today -/
theorem protocol_flags :
    Generated.publishRecordsError = true ∧ Generated.publishBreaksOnError = true ∧
    Generated.workerPoolWaits = true ∧ Generated.filesClosesChannel = true := by decide

/-- **Termination (ranking function).**  Every step of every goroutine strictly decreases
    `St.rank`, so no schedule is infinite: the step relation is well founded — for every number of
    jobs, every channel capacity and every writer (any failure pattern, in particular "fails at the
    k-th file" for every k). -/
theorem publish_terminates (cap : Nat) (fails : Writer) :
    WellFounded (fun s' s : St => Step cap fails s s') :=
  Subrelation.wf (fun h => step_decreases h) (InvImage.wf St.rank Nat.lt_wfRel.wf)

/-- … with an explicit bound: from the start, no schedule is longer than `3·files + jobs + 1` -/
theorem publish_bounded (files : List Nat) (jobs cap n : Nat) (fails : Writer) (s : St)
    (h : StepsN cap fails n (St.init files jobs) s) : n ≤ 3 * files.length + jobs + 1 := by
  have := stepsN_rank h
  have hsum : ∀ j, ((List.replicate j Worker.idle).map workerRank).sum = j := by
    intro j
    induction j with
    | zero => rfl
    | succ j ih => rw [List.replicate_succ, List.map_cons, List.sum_cons, ih]; simp [workerRank]; omega
  have hr : (St.init files jobs).rank = 3 * files.length + 1 + jobs := by
    simp only [St.init, St.rank, hsum]; simp
  omega

/-- **No deadlock of `Publish`.**  As long as some worker is still in its loop some goroutine can
    move (capacity ≥ 1, i.e. jobs ≥ 1) — so every maximal schedule ends with `Publish` returned.
    (The producer goroutine may stay blocked for ever after a failure: a leak, not a hang.) -/
theorem no_deadlock (cap : Nat) (hcap : 0 < cap) (fails : Writer) (s : St) (h : ¬ s.returned) :
    ∃ s', Step cap fails s s' := by
  unfold St.returned at h
  have h' : ∃ w, w ∈ s.workers ∧ ¬(w = .done ∨ w = .failed) :=
    Classical.byContradiction fun hn =>
      h fun w hw => Classical.byContradiction fun hc => hn ⟨w, hw, hc⟩
  obtain ⟨w, hw, hne⟩ := h'
  obtain ⟨i, hi⟩ := List.mem_iff_getElem?.mp hw
  cases w with
  | done => simp at hne
  | failed => simp at hne
  | holding f =>
    cases hf : fails s.log.length with
    | true => exact ⟨_, .writeFail s i f hi hf⟩
    | false => exact ⟨_, .writeOk s i f hi hf⟩
  | idle =>
    cases hc : s.chan with
    | cons f rest => exact ⟨_, .take s i f rest hi hc⟩
    | nil =>
      cases hcl : s.closed with
      | true => exact ⟨_, .finish s i hi hc hcl⟩
      | false =>
        cases ht : s.todo with
        | nil => exact ⟨_, .close s ht hcl⟩
        | cons f rest => exact ⟨_, .produce s f rest ht (by simp [hc, hcap])⟩

/-- **A failure is reported.**  In every reachable state — in particular when `Publish` returns —
    `err` is set iff some `WriteFile` call has failed, on every schedule. -/
theorem failure_reported (files : List Nat) (jobs cap : Nat) (fails : Writer) (s : St)
    (h : Steps cap fails (St.init files jobs) s) :
    s.err.isSome = true ↔ ∃ e ∈ s.log, e.2 = false := by
  induction h with
  | refl => simp [St.init]
  | tail b c _ hs ih =>
    cases hs with
    | produce f rest h1 h2 => simpa using ih
    | close h1 h2 => simpa using ih
    | take i f rest h1 h2 => simpa using ih
    | finish i h1 h2 h3 => simpa using ih
    | writeOk i f h1 h2 =>
      simp only [List.mem_append, List.mem_singleton]
      constructor
      · intro h; obtain ⟨e, he, hf⟩ := ih.mp h; exact ⟨e, Or.inl he, hf⟩
      · rintro ⟨e, he | he, hf⟩
        · exact ih.mpr ⟨e, he, hf⟩
        · subst he; simp at hf
    | writeFail i f h1 h2 =>
      have hrec := protocol_flags.1
      simp only [hrec, if_true, Option.isSome_some, true_iff]
      exact ⟨(f, false), by simp, rfl⟩

/-- **Publishing stops at a failure**: a worker whose `WriteFile` failed takes no further file
    (it is `failed` for ever), so at most `jobs` calls fail on any schedule.  Stated as: a failed
    worker never moves again. -/
theorem failed_worker_stops (cap : Nat) (fails : Writer) (s s' : St) (i : Nat)
    (hw : s.workers[i]? = some .failed) (h : Step cap fails s s') : s'.workers[i]? = some .failed := by
  have hset : ∀ j w w', s.workers[j]? = some w → w ≠ .failed → (setW s.workers j w')[i]? = some .failed := by
    intro j w w' hj hne
    unfold setW
    by_cases hij : j = i
    · subst hij; rw [hw] at hj; cases hj; exact absurd rfl hne
    · rw [List.getElem?_set_ne hij]; exact hw
  cases h with
  | produce f rest h1 h2 => exact hw
  | close h1 h2 => exact hw
  | take j f rest h1 h2 => exact hset j _ _ h1 (by simp)
  | finish j h1 h2 h3 => exact hset j _ _ h1 (by simp)
  | writeOk j f h1 h2 => exact hset j _ _ h1 (by simp)
  | writeFail j f h1 h2 => exact hset j _ _ h1 (by simp)

/-- with no worker at all (`-jobs 0`) `Publish` returns at once: nothing written, nil returned
    (witness; the property quantifies over jobs ≥ 1) -/
theorem jobs_zero_silent (files : List Nat) :
    (St.init files 0).returned ∧ (St.init files 0).log = [] ∧ (St.init files 0).err = none := by
  simp [St.init, St.returned]

/-- **Nothing is lost or written twice, on any schedule**: in every reachable state every file is
    at exactly one place — handed to the writer, inside a worker, in the channel, or with the
    producer. -/
theorem files_conserved (files : List Nat) (jobs cap : Nat) (fails : Writer) (s : St)
    (h : Steps cap fails (St.init files jobs) s) :
    files.Perm (s.log.map (·.1) ++ held s.workers ++ s.chan ++ s.todo) :=
  conserved_steps (conserved_init files jobs) h

/-- **The set of written files does not depend on the schedule or on the number of jobs**: when
    the writer never fails and `Publish` has returned, exactly the files of `sendFiles` were
    written, each once, and `err` is nil — for every jobs ≥ 1 and every interleaving. -/
theorem schedule_independent (files : List Nat) (jobs cap : Nat) (hj : 0 < jobs) (s : St)
    (h : Steps cap (fun _ => false) (St.init files jobs) s) (hr : s.returned) :
    files.Perm (s.log.map (·.1)) ∧ (∀ e ∈ s.log, e.2 = true) ∧ s.err = none := by
  have hcons := files_conserved files jobs cap _ s h
  have herr := failure_reported files jobs cap _ s h
  have hnofail : ∀ e ∈ s.log, e.2 = true := by
    have : ∀ t, Steps cap (fun _ => false) (St.init files jobs) t → ∀ e ∈ t.log, e.2 = true := by
      intro t ht
      induction ht with
      | refl => simp [St.init]
      | tail b c _ hs ih =>
        cases hs with
        | produce f rest h1 h2 => exact ih
        | close h1 h2 => exact ih
        | take i f rest h1 h2 => exact ih
        | finish i h1 h2 h3 => exact ih
        | writeOk i f h1 h2 =>
          intro e he
          rcases List.mem_append.mp he with he | he
          · exact ih e he
          · simp at he; subst he; rfl
        | writeFail i f h1 h2 => simp at h2
    exact this s h
  have herrnone : s.err = none := by
    cases he : s.err with
    | none => rfl
    | some f =>
      have : ∃ e ∈ s.log, e.2 = false := herr.mp (by simp [he])
      obtain ⟨e, hm, hf⟩ := this
      have := hnofail e hm
      simp [hf] at this
  -- no worker is `failed`: the number of workers stays `jobs`, all are `done`
  have hnf : ∀ t, Steps cap (fun _ => false) (St.init files jobs) t →
      t.workers.length = jobs ∧ ∀ w ∈ t.workers, w ≠ Worker.failed := by
    intro t ht
    induction ht with
    | refl => simp [St.init]
    | tail b c _ hs ih =>
      have hsetW : ∀ j w', w' ≠ Worker.failed →
          (setW b.workers j w').length = jobs ∧ ∀ w ∈ setW b.workers j w', w ≠ Worker.failed := by
        intro j w' hw'
        refine ⟨by simp [setW, ih.1], ?_⟩
        intro w hw
        rcases mem_setW hw with rfl | hw
        · exact hw'
        · exact ih.2 w hw
      cases hs with
      | produce f rest h1 h2 => exact ih
      | close h1 h2 => exact ih
      | take i f rest h1 h2 => exact hsetW i _ (by simp)
      | finish i h1 h2 h3 => exact hsetW i _ (by simp)
      | writeOk i f h1 h2 => exact hsetW i _ (by simp)
      | writeFail i f h1 h2 => simp at h2
  obtain ⟨hlen, hno⟩ := hnf s h
  have hdone : ∀ w ∈ s.workers, w = Worker.done := by
    intro w hw
    rcases hr w hw with h | h
    · exact h
    · exact absurd h (hno w hw)
  have hex : ∃ w ∈ s.workers, w = Worker.done := by
    cases hws : s.workers with
    | nil => rw [hws] at hlen; simp at hlen; omega
    | cons w ws => exact ⟨w, by simp, hdone w (by simp [hws])⟩
  have hinv := doneInv_steps (a := St.init files jobs)
    (by intro ⟨w, hw, hd⟩; simp [St.init] at hw; rw [hw.2] at hd; cases hd)
    (by intro hc; simp [St.init] at hc) h
  obtain ⟨hclosed, hchan⟩ := hinv.1 hex
  have htodo := hinv.2 hclosed
  have hheld := held_nil_of_done s.workers hr
  rw [hheld, hchan, htodo] at hcons
  exact ⟨by simpa using hcons, hnofail, herrnone⟩

/-- the scheduler the driver runs only takes steps of the transition system -/
theorem runSched_sound (cap : Nat) (fails : Writer) (fuel : Nat) (sched : List Nat) (s : St) :
    Steps cap fails s (runSched cap fails fuel sched s) := runSched_steps cap fails fuel sched s

/-- **Every schedule ends with `Publish` returned**: the executable scheduler (what the driver
    runs, any list of picks) reaches a state in which every worker has left its loop, for every
    jobs ≥ 1, every writer and every fuel above the bound of `publish_bounded`. -/
theorem every_schedule_returns (files : List Nat) (jobs : Nat) (hj : 0 < jobs) (fails : Writer)
    (sched : List Nat) (fuel : Nat) (hf : 3 * files.length + jobs + 1 ≤ fuel) :
    (runSched jobs fails (fuel + 1) sched (St.init files jobs)).returned := by
  apply runSched_returns
  · have hsum : ∀ j, ((List.replicate j Worker.idle).map workerRank).sum = j := by
      intro j
      induction j with
      | zero => rfl
      | succ j ih => rw [List.replicate_succ, List.map_cons, List.sum_cons, ih]; simp [workerRank]; omega
    have hr : (St.init files jobs).rank = 3 * files.length + 1 + jobs := by
      simp only [St.init, St.rank, hsum]; simp
    omega
  · exact fun t ht => no_deadlock jobs hj fails t ht

/-! ## (i) Naming -/

/-! ### facts about the regenerated tables and flags -/

theorem fact_keep_safe : ∀ b ∈ Generated.keyKeep, safeByte b = true := by decide +kernel
theorem fact_table_ok : tableOk Generated.sourceKeyByte = true := by decide +kernel
theorem fact_table_safe : ∀ e ∈ Generated.sourceKeyByte, e.all safeByte = true := by decide +kernel
theorem fact_suffix : Generated.pageSourceSuffix = html := by decide
theorem fact_keyed : Generated.individualsKeyedWithPlaces = true := by decide
theorem fact_slink : Generated.surnameLinkUsesIndexLetter = true := by decide
theorem fact_escapes : Generated.sourceKeyEscapesFixed = true := by decide
theorem fact_avoid : Generated.keysAvoidReserved = true := by decide
theorem fact_skip : Generated.keysSkipHidden = true := by decide
theorem fact_identity : Generated.pageIndividualByIdentity = true := by decide
theorem fact_fixed_names : fixedNames = fixedKeys.map (· ++ html) := by decide +kernel
theorem fact_fixed_nodup : fixedNames.Nodup := by decide +kernel
theorem fact_fixed_head : ∀ k ∈ fixedKeys, k.head? ≠ some 95 ∧ k ≠ [] := by decide +kernel

/-- the facts the naming theorems rest on, regenerated from the code on every run: key bytes are
    safe file-name bytes; the source pointer encoding is total (256 entries), per byte, each entry
    the byte itself or its `_xx` escape, all safe; the fixed names are `key.html`, pairwise distinct
    and do not start with `_`; the six behavioural flags of the repaired code are on (the last one: `PageIndividual` finds
    the record itself, so the model may index individuals by position even when records share a
    pointer) -/
theorem naming_facts :
    (∀ b ∈ Generated.keyKeep, safeByte b = true)
    ∧ tableOk Generated.sourceKeyByte = true
    ∧ Generated.sourceKeyBytewise = true
    ∧ (∀ e ∈ Generated.sourceKeyByte, e.all safeByte = true)
    ∧ Generated.pageSourceSuffix = html
    ∧ fixedNames = fixedKeys.map (· ++ html) ∧ fixedNames.Nodup
    ∧ Generated.individualsKeyedWithPlaces = true
    ∧ Generated.surnameLinkUsesIndexLetter = true
    ∧ Generated.sourceKeyEscapesFixed = true
    ∧ Generated.keysAvoidReserved = true
    ∧ Generated.keysSkipHidden = true
    ∧ Generated.pageIndividualByIdentity = true :=
  ⟨fact_keep_safe, fact_table_ok, by decide, fact_table_safe, fact_suffix, fact_fixed_names,
   fact_fixed_nodup, fact_keyed, fact_slink, fact_escapes, fact_avoid, fact_skip, fact_identity⟩

theorem keep_dash : ∀ b ∈ Generated.keyDash, keep b = true := by decide
theorem keep_fold : ∀ e ∈ Generated.lowerFold, keep e.2 = true := by decide
theorem keep_digits : ∀ n, n < 58 → 48 ≤ n → keep (UInt8.ofNat n) = true := by decide
theorem keep_minus : keep 45 = true := by decide


theorem keep_safe (b : UInt8) (h : keep b = true) : safeByte b = true := by
  unfold keep at h
  exact fact_keep_safe b (by simpa using h)

theorem foldAt_keep {s : Str} {c : UInt8} {n : Nat} (h : foldAt s = some (c, n)) : keep c = true := by
  unfold foldAt at h
  split at h
  · rename_i e he
    simp at h
    rw [← h.1]
    exact keep_fold e (List.mem_of_find?_eq_some he)
  · simp at h

theorem sanGo_confined (inRun : Bool) (k : Nat) (s : Str) : ∀ b ∈ sanGo inRun k s, keep b = true := by
  induction s generalizing inRun k with
  | nil => simp [sanGo]
  | cons x xs ih =>
    cases k with
    | succ k => simp only [sanGo]; exact ih _ _
    | zero =>
      simp only [sanGo]
      split
      · rename_i c n hf
        intro b hb
        rcases List.mem_cons.mp hb with hb | hb
        · subst hb; exact foldAt_keep hf
        · exact ih _ _ b hb
      · split
        · rename_i hk
          intro b hb
          rcases List.mem_cons.mp hb with hb | hb
          · subst hb; simp at hk; exact hk.2
          · exact ih _ _ b hb
        · split
          · exact ih _ _
          · intro b hb
            rcases List.mem_append.mp hb with hb | hb
            · exact keep_dash b hb
            · exact ih _ _ b hb

/-- **File keys are confined**: every byte of `sanitize s` is in `[a-z0-9_-]`, for every byte
    string `s` (names with path separators, dots, NUL, invalid UTF-8, …) -/
theorem sanitize_confined (s : Str) : ∀ b ∈ sanitize s, keep b = true := sanGo_confined false 0 s

theorem natToDec_keep (i : Nat) : ∀ b ∈ natToDec i, keep b = true := by
  intro b hb
  have := natToDecF_digits _ _ b hb
  have h := keep_digits b.toNat (by omega) this.1
  simpa using h

theorem candidate_confined (s : Str) (i : Nat) (hs : ∀ b ∈ s, keep b = true) :
    ∀ b ∈ candidate s i, keep b = true := by
  unfold candidate
  split
  · exact hs
  · intro b hb
    simp only [List.mem_append, List.mem_singleton] at hb
    rcases hb with (hb | hb) | hb
    · exact hs b hb
    · subst hb; exact keep_minus
    · exact natToDec_keep i b hb

/-- invariant of `GetIndividuals`: keys are pairwise distinct, none is a place key, all confined -/
def KeysOk (places keys : List Str) : Prop :=
  keys.Nodup ∧ (∀ k ∈ keys, k ∉ places) ∧ (∀ k ∈ keys, ∀ b ∈ k, keep b = true)

theorem getIndividuals_ok (places : List Str) (acc names : List Str) (h : KeysOk places acc) :
    KeysOk places (getIndividuals places acc names)
    ∧ (getIndividuals places acc names).length = acc.length + names.length := by
  induction names generalizing acc with
  | nil => simp [getIndividuals, h]
  | cons n ns ih =>
    simp only [getIndividuals]
    have hs := uniqueKey_isSome acc places (sanitize n)
    cases hk : uniqueKey acc places (sanitize n) with
    | none => simp [hk] at hs
    | some k =>
      simp only []
      obtain ⟨h1, h2, i, hi⟩ := uniqueKey_fresh hk
      have hacc : KeysOk places (acc ++ [k]) := by
        refine ⟨?_, ?_, ?_⟩
        · rw [List.nodup_append]
          refine ⟨h.1, by simp, ?_⟩
          intro a ha b hb
          simp at hb; subst hb
          exact fun e => h1 (e ▸ ha)
        · intro x hx
          rcases List.mem_append.mp hx with hx | hx
          · exact h.2.1 x hx
          · simp at hx; subst hx; exact h2
        · intro x hx
          rcases List.mem_append.mp hx with hx | hx
          · exact h.2.2 x hx
          · simp at hx; subst hx; rw [hi]
            exact candidate_confined _ i (sanitize_confined n)
      have := ih (acc ++ [k]) hacc
      refine ⟨this.1, ?_⟩
      rw [this.2]; simp; omega

/-- **Names are injective** (given one consistent places map): the keys `GetIndividuals` hands out
    are pairwise distinct, differ from every place key it was given, are confined, and there is
    exactly one per individual — for all names and all place keys. -/
theorem names_injective (names places : List Str) :
    (individualKeys names places).Nodup
    ∧ (∀ k ∈ individualKeys names places, k ∉ places)
    ∧ (∀ k ∈ individualKeys names places, ∀ b ∈ k, keep b = true)
    ∧ (individualKeys names places).length = names.length := by
  have := getIndividuals_ok places [] names ⟨List.nodup_nil, by simp, by simp⟩
  exact ⟨this.1.1, this.1.2.1, this.1.2.2, by simpa [individualKeys] using this.2⟩

theorem zipFilter_sublist (ks : List Str) (hs : List Bool) : (zipFilter ks hs).Sublist ks := by
  induction ks generalizing hs with
  | nil => cases hs <;> simp [zipFilter]
  | cons x xs ih =>
    cases hs with
    | nil => simp [zipFilter]
    | cons h hs =>
      simp only [zipFilter]
      split
      · exact (ih hs).cons _
      · exact (ih hs).cons_cons _

theorem zipFilter_sub (ks : List Str) (hs : List Bool) : ∀ k ∈ zipFilter ks hs, k ∈ ks :=
  fun _ hk => (zipFilter_sublist ks hs).subset hk

theorem zipFilter_mem (ks : List Str) (hs : List Bool) (i : Nat) (k : Str)
    (hk : ks[i]? = some k) (hh : hs[i]? = some false) : k ∈ zipFilter ks hs := by
  induction ks generalizing hs i with
  | nil => simp at hk
  | cons x xs ih =>
    cases hs with
    | nil => simp at hh
    | cons h hs =>
      cases i with
      | zero => simp at hk hh; subst hk hh; simp [zipFilter]
      | succ i =>
        simp at hk hh
        have := ih hs i hk hh
        simp only [zipFilter]
        split
        · exact this
        · exact List.mem_cons_of_mem _ this

theorem map_html_nodup (l : List Str) (h : l.Nodup) : (l.map (· ++ html)).Nodup := by
  rw [List.Nodup, List.pairwise_map]
  exact List.Pairwise.imp (fun hne e => hne (List.append_cancel_right e)) h

theorem map_html_inj {a b : Str} (h : a ++ html = b ++ html) : a = b := List.append_cancel_right h

theorem plain_of_safe (k : Str) (h : ∀ b ∈ k, safeByte b = true) : plain (k ++ html) = true := by
  unfold plain
  have hl : (k ++ html).length - html.length = k.length := by simp
  simp only [hl, List.drop_left, List.take_left, beq_self_eq_true, Bool.true_and]
  exact List.all_eq_true.mpr h

theorem plain_of_keep (k : Str) (h : ∀ b ∈ k, keep b = true) : plain (k ++ html) = true :=
  plain_of_safe k (fun b hb => keep_safe b (h b hb))


/-! ### source keys -/

theorem isFixedKey_iff (k : Str) : isFixedKey k = true ↔ k ∈ fixedKeys := by
  unfold isFixedKey
  rw [List.contains_iff_mem, fact_fixed_names]
  constructor
  · intro h
    obtain ⟨k', hk', e⟩ := List.mem_map.mp h
    rw [← map_html_inj e]; exact hk'
  · intro h; exact List.mem_map.mpr ⟨k, h, rfl⟩

theorem sourceKeyRaw_safe (ptr : Str) : ∀ b ∈ sourceKeyRaw ptr, safeByte b = true := by
  intro b hb
  unfold sourceKeyRaw at hb
  obtain ⟨c, _, hc⟩ := List.mem_flatMap.mp hb
  have hok := fact_table_ok
  unfold tableOk at hok
  simp only [Bool.and_eq_true, beq_iff_eq] at hok
  have hlt : c.toNat < Generated.sourceKeyByte.length := by
    rw [hok.1]; exact UInt8.toNat_lt c
  have hmem : Generated.sourceKeyByte.getD c.toNat [c] ∈ Generated.sourceKeyByte := by
    simp [List.getD, List.getElem?_eq_getElem hlt]
  exact List.all_eq_true.mp (fact_table_safe _ hmem) b hc

theorem hexDigit_safe : ∀ d, d < 16 → safeByte (hexDigit d) = true := by decide

theorem escapeFirst_safe (k : Str) (h : ∀ b ∈ k, safeByte b = true) : ∀ b ∈ escapeFirst k, safeByte b = true := by
  cases k with
  | nil => simp [escapeFirst]
  | cons x t =>
    intro b hb
    simp only [escapeFirst, List.mem_cons] at hb
    rcases hb with rfl | rfl | rfl | hb
    · decide
    · exact hexDigit_safe _ (by have := UInt8.toNat_lt x; omega)
    · exact hexDigit_safe _ (Nat.mod_lt _ (by omega))
    · exact h b (by simp [hb])

theorem sourceKey_safe (ptr : Str) : ∀ b ∈ sourceKey ptr, safeByte b = true := by
  unfold sourceKey
  simp only []
  split
  · exact escapeFirst_safe _ (sourceKeyRaw_safe ptr)
  · exact sourceKeyRaw_safe ptr

/-- the key of a source can be read back: `decodeKey (sourceKey p) = p` -/
theorem sourceKey_decode (ptr : Str) : decodeKey (sourceKey ptr) = ptr := by
  have hraw : decodeKey (sourceKeyRaw ptr) = ptr := decode_flatMap _ fact_table_ok ptr
  unfold sourceKey
  simp only []
  split
  · rename_i h
    simp only [Bool.and_eq_true] at h
    rw [decode_escapeFirst _ (fact_fixed_head _ ((isFixedKey_iff _).mp h.2)).1, hraw]
  · exact hraw

/-- the key of a source is never the key of a fixed page -/
theorem sourceKey_not_fixed (ptr : Str) : sourceKey ptr ∉ fixedKeys := by
  unfold sourceKey
  simp only [fact_escapes, Bool.true_and]
  split
  · rename_i h
    have hf := fact_fixed_head _ ((isFixedKey_iff _).mp h)
    intro hm
    have := (fact_fixed_head _ hm).1
    cases hr : sourceKeyRaw ptr with
    | nil => exact hf.2 hr
    | cons b t => rw [hr] at this; simp [escapeFirst] at this
  · rename_i h
    intro hm
    exact h ((isFixedKey_iff _).mpr hm)

/-- **Source pages never share a name**: different pointers give different file names -/
theorem sources_injective (p q : Str) (h : pageSource p = pageSource q) : p = q := by
  unfold pageSource at h
  have := List.append_cancel_right h
  rw [← sourceKey_decode p, ← sourceKey_decode q, this]

theorem pageIndividuals_plain (l : UInt8) (h : l = Generated.symbolLetter ∨ (97 ≤ l.toNat ∧ l.toNat ≤ 122)) :
    plain (pageIndividuals l) = true := by
  have hall : ∀ n, n < 123 → 97 ≤ n → plain (pageIndividuals (UInt8.ofNat n)) = true := by decide +kernel
  rcases h with h | h
  · subst h; decide +kernel
  · have := hall l.toNat (by omega) h.1; simpa using this

/-- the index letters the code computes are `#` or `a`..`z`, whatever the surnames -/
theorem indexLetter_range (surname : Str) :
    indexLetter surname = Generated.symbolLetter
    ∨ (97 ≤ (indexLetter surname).toNat ∧ (indexLetter surname).toNat ≤ 122) := by
  unfold indexLetter
  split
  · exact Or.inl rfl
  · rename_i b _
    split
    · exact Or.inl rfl
    · rename_i h
      right
      simp at h
      exact ⟨UInt8.le_iff_toNat_le.mp h.1, UInt8.le_iff_toNat_le.mp h.2⟩

theorem indexLetters_range (surnames : List Str) :
    ∀ l ∈ indexLetters surnames, l = Generated.symbolLetter ∨ (97 ≤ l.toNat ∧ l.toNat ≤ 122) := by
  intro l hl
  unfold indexLetters at hl
  rcases List.mem_append.mp hl with hl | hl
  · split at hl
    · simp at hl; exact Or.inl hl
    · simp at hl
  · have hm := (List.mem_filter.mp hl).2
    have : l ∈ surnames.map indexLetter := by simpa using hm
    obtain ⟨sn, _, rfl⟩ := List.mem_map.mp this
    exact indexLetter_range sn


/-! ### the keys of a site -/

theorem placeKeys_nodup (s : Site) : s.placeKeys.Nodup := placeEntriesR_keys_nodup _ _

theorem placeKey_mem (s : Site) : ∀ k ∈ s.placeKeys,
    k ∉ s.reserved ∧ ∃ p i, k = candidate (sanitize p) i := by
  intro k hk
  unfold Site.placeKeys Site.placeEntries at hk
  obtain ⟨kv, hkv, rfl⟩ := List.mem_map.mp hk
  rw [placeEntriesR_key _ _ kv hkv]
  obtain ⟨h1, i, h2⟩ := placeKey_spec s.reserved kv.2
  exact ⟨h1, kv.2, i, h2⟩

/-- the keys of the individual pages are keys `GetIndividuals` handed out (to the people who get
    a page, or to everybody and then filtered) -/
theorem individualPageKeys_sub (s : Site) :
    ∃ ns, s.individualPageKeys.Sublist (individualKeys ns s.keyPlaces) := by
  unfold Site.individualPageKeys
  split
  · exact ⟨_, List.Sublist.refl _⟩
  · exact ⟨_, zipFilter_sublist _ _⟩

theorem reserved_eq (s : Site) : s.reserved = fixedKeys ++ s.sourcePtrs.map sourceKey := by
  simp [Site.reserved, reservedKeys, fact_avoid]

/-- **Names are confined** (full strength): whatever the names, places and pointers in the file —
    `../x`, `a/b`, `S/../x`, NUL, invalid UTF-8 — every file name `sendFiles` produces is a plain
    `[A-Za-z0-9_-]*.html` name: no separator, no dot but the suffix, so it stays inside the output
    directory.  (`s.letters` are the letters `GetIndexLetters` computed, `indexLetters_range`.) -/
theorem names_confined (s : Site)
    (hl : ∀ l ∈ s.letters, l = Generated.symbolLetter ∨ (97 ≤ l.toNat ∧ l.toNat ≤ 122)) :
    ∀ n ∈ s.fileNames, plain n = true := by
  intro n hn
  unfold Site.fileNames at hn
  simp only [List.mem_append] at hn
  rcases hn with ((((hn | hn) | hn) | hn) | hn) | hn
  · split at hn
    · rcases List.mem_append.mp hn with hn | hn
      · obtain ⟨l, hl', rfl⟩ := List.mem_map.mp hn
        exact pageIndividuals_plain l (hl l hl')
      · unfold Site.individualFiles at hn
        obtain ⟨k, hk, rfl⟩ := List.mem_map.mp hn
        obtain ⟨ns, hsub⟩ := individualPageKeys_sub s
        exact plain_of_keep k ((names_injective ns s.keyPlaces).2.2.1 k (hsub.subset hk))
    · simp at hn
  · split at hn
    · rcases List.mem_cons.mp hn with hn | hn
      · subst hn; decide +kernel
      · unfold Site.placeFiles at hn
        obtain ⟨k, hk, rfl⟩ := List.mem_map.mp hn
        obtain ⟨_, p, i, rfl⟩ := placeKey_mem s k hk
        exact plain_of_keep _ (candidate_confined _ i (sanitize_confined p))
    · simp at hn
  · split at hn
    · simp at hn; subst hn; decide +kernel
    · simp at hn
  · split at hn
    · simp at hn; subst hn; decide +kernel
    · simp at hn
  · split at hn
    · rcases List.mem_cons.mp hn with hn | hn
      · subst hn; decide +kernel
      · unfold Site.sourceFiles at hn
        obtain ⟨p, _, rfl⟩ := List.mem_map.mp hn
        unfold pageSource
        rw [fact_suffix]
        exact plain_of_safe _ (sourceKey_safe p)
    · simp at hn
  · split at hn
    · simp at hn; subst hn; decide +kernel
    · simp at hn

/-- … in particular for the letters `GetIndexLetters` computes from the surnames of the listed
    individuals (digits, symbols, multi-byte first letters): no hypothesis left -/
theorem names_confined_site (s : Site) (surnames : List Str) (h : s.letters = indexLetters surnames) :
    ∀ n ∈ s.fileNames, plain n = true :=
  names_confined s (fun l hl => indexLetters_range surnames l (h ▸ hl))

/-- the hostile pointers of the property: `0 @S/../x@ SOUR` is written to `S_2f_2e_2e_2fx.html`
    (the unrepaired code wrote `S/../x.html`, outside the output directory) and `0 @places@ SOUR`
    to `_70laces.html`, not over the place list -/
theorem source_name_witness :
    pageSource bs!"S/../x" = bs!"S_2f_2e_2e_2fx.html" ∧ plain (pageSource bs!"S/../x") = true
    ∧ plain bs!"S/../x.html" = false ∧ pageSource bs!"S1" = bs!"S1.html"
    ∧ pageSource bs!"places" = bs!"_70laces.html" := by
  decide +kernel

/-! ### no two pages share a name -/

theorem ite_sublist {α} (b : Bool) (l : List α) : (if b then l else []).Sublist l := by
  cases b <;> simp

/-- the nine parts of the file list, regrouped by kind -/
theorem regroup (A I P S : List Str) (pl fa su so st : Str) :
    ((A ++ I) ++ (pl :: P) ++ [fa] ++ [su] ++ (so :: S) ++ [st]).Perm
      ((A ++ [pl, fa, su, so, st]) ++ S ++ P ++ I) := by
  rw [List.perm_iff_count]
  intro a
  simp only [List.count_append, List.count_cons, List.count_nil]
  omega

theorem inj_of_nodup_map {α β} (f : α → β) (l : List α) (h : (l.map f).Nodup) :
    ∀ x ∈ l, ∀ y ∈ l, f x = f y → x = y := by
  induction l with
  | nil => simp
  | cons a t ih =>
    simp only [List.map_cons, List.nodup_cons] at h
    intro x hx y hy e
    rcases List.mem_cons.mp hx with hxa | hx
    · rcases List.mem_cons.mp hy with hya | hy
      · rw [hxa, hya]
      · exact absurd (List.mem_map.mpr ⟨y, hy, by rw [← e, hxa]⟩) h.1
    · rcases List.mem_cons.mp hy with hya | hy
      · exact absurd (List.mem_map.mpr ⟨x, hx, by rw [e, hya]⟩) h.1
      · exact ih h.2 x hx y hy e

/-- the letters an index can have: `#` and `a`..`z` -/
def validLetters : List UInt8 := Generated.symbolLetter :: (List.range 26).map (fun i => UInt8.ofNat (97 + i))

theorem validLetters_pages : validLetters.map pageIndividuals ⊆ fixedNames ∧ (validLetters.map pageIndividuals).Nodup := by
  decide +kernel

theorem mem_validLetters (l : UInt8) (h : l = Generated.symbolLetter ∨ (97 ≤ l.toNat ∧ l.toNat ≤ 122)) :
    l ∈ validLetters := by
  rcases h with h | h
  · subst h; simp [validLetters]
  · refine List.mem_cons_of_mem _ (List.mem_map.mpr ⟨l.toNat - 97, List.mem_range.mpr (by omega), ?_⟩)
    have : 97 + (l.toNat - 97) = l.toNat := by omega
    rw [this]; simp

theorem fixed_literals :
    [Generated.pagePlacesName, Generated.pageFamiliesName, Generated.pageSurnamesName,
     Generated.pageSourcesName, Generated.pageStatisticsName].Nodup
    ∧ (∀ n ∈ [Generated.pagePlacesName, Generated.pageFamiliesName, Generated.pageSurnamesName,
              Generated.pageSourcesName, Generated.pageStatisticsName],
        n ∈ fixedNames ∧ n ∉ validLetters.map pageIndividuals) := by
  decide +kernel

theorem not_fixed_of_key {k : Str} (h : k ∉ fixedKeys) : k ++ html ∉ fixedNames := by
  rw [fact_fixed_names]
  intro hm
  obtain ⟨k', hk', e⟩ := List.mem_map.mp hm
  exact h (map_html_inj e ▸ hk')

/-- **No two pages share a name** — all page kinds, fixed pages included: the file names
    `sendFiles` produces are pairwise distinct, for every document (any names, places, pointers —
    a person called "Places", a place called "Statistics", a source `@ann-smith@` next to Ann
    Smith, `@sources@`), every visibility and every subset of page groups.  Hypotheses: the index
    letters are distinct letters (`indexLetters_nodup`, `indexLetters_range`) and the source
    records have distinct pointers. -/
theorem site_names_injective (s : Site)
    (hl : ∀ l ∈ s.letters, l = Generated.symbolLetter ∨ (97 ≤ l.toNat ∧ l.toNat ≤ 122))
    (hln : s.letters.Nodup) (hsp : s.sourcePtrs.Nodup) : s.fileNames.Nodup := by
  -- the parts
  let A := s.letters.map pageIndividuals
  let I := s.individualFiles
  let P := if s.showPlaces then s.placeFiles else []
  let S := s.sourceFiles
  have hsub : s.fileNames.Sublist
      ((A ++ I) ++ (Generated.pagePlacesName :: P) ++ [Generated.pageFamiliesName]
        ++ [Generated.pageSurnamesName] ++ (Generated.pageSourcesName :: S) ++ [Generated.pageStatisticsName]) := by
    unfold Site.fileNames
    refine List.Sublist.append (List.Sublist.append (List.Sublist.append (List.Sublist.append
      (List.Sublist.append (ite_sublist _ _) ?_) (ite_sublist _ _)) (ite_sublist _ _)) (ite_sublist _ _)) (ite_sublist _ _)
    show (if s.showPlaces then Generated.pagePlacesName :: s.placeFiles else []).Sublist
      (Generated.pagePlacesName :: (if s.showPlaces then s.placeFiles else []))
    cases s.showPlaces <;> simp
  refine List.Nodup.sublist hsub ((regroup A I P S _ _ _ _ _).nodup_iff.mpr ?_)
  -- membership facts
  have hres := reserved_eq s
  have hA : ∀ n ∈ A, n ∈ validLetters.map pageIndividuals := by
    intro n hn
    obtain ⟨l, hl', rfl⟩ := List.mem_map.mp hn
    exact List.mem_map.mpr ⟨l, mem_validLetters l (hl l hl'), rfl⟩
  have hFX : ∀ n ∈ A ++ [Generated.pagePlacesName, Generated.pageFamiliesName, Generated.pageSurnamesName,
      Generated.pageSourcesName, Generated.pageStatisticsName], n ∈ fixedNames := by
    intro n hn
    rcases List.mem_append.mp hn with hn | hn
    · exact validLetters_pages.1 (hA n hn)
    · exact (fixed_literals.2 n hn).1
  have hS : ∀ n ∈ S, ∃ p ∈ s.sourcePtrs, n = sourceKey p ++ html := by
    intro n hn
    obtain ⟨p, hp, rfl⟩ := List.mem_map.mp hn
    exact ⟨p, hp, by unfold pageSource; rw [fact_suffix]⟩
  have hP : ∀ n ∈ P, s.showPlaces = true ∧ ∃ k ∈ s.placeKeys, n = k ++ html := by
    intro n hn
    cases hp : s.showPlaces with
    | false => simp [P, hp] at hn
    | true =>
      simp only [P, hp, if_true] at hn
      obtain ⟨k, hk, rfl⟩ := List.mem_map.mp hn
      exact ⟨rfl, k, hk, rfl⟩
  obtain ⟨ns, hksub⟩ := individualPageKeys_sub s
  have hkeys := names_injective ns s.keyPlaces
  have hI : ∀ n ∈ I, ∃ k, n = k ++ html ∧ k ∉ s.keyPlaces := by
    intro n hn
    obtain ⟨k, hk, rfl⟩ := List.mem_map.mp hn
    exact ⟨k, rfl, hkeys.2.1 k (hksub.subset hk)⟩
  -- Nodup of each part
  have hAn : A.Nodup := by
    rw [List.Nodup, List.pairwise_map]
    refine List.Pairwise.imp_of_mem ?_ hln
    intro a b ha hb hne e
    exact hne (inj_of_nodup_map pageIndividuals validLetters validLetters_pages.2 a
      (mem_validLetters a (hl a ha)) b (mem_validLetters b (hl b hb)) e)
  have hFXn : (A ++ [Generated.pagePlacesName, Generated.pageFamiliesName, Generated.pageSurnamesName,
      Generated.pageSourcesName, Generated.pageStatisticsName]).Nodup := by
    rw [List.nodup_append]
    refine ⟨hAn, fixed_literals.1, ?_⟩
    intro a ha b hb e
    subst e
    exact (fixed_literals.2 a hb).2 (hA a ha)
  have hSn : S.Nodup := by
    show (List.map pageSource s.sourcePtrs).Nodup
    rw [List.Nodup, List.pairwise_map]
    exact List.Pairwise.imp (fun hne e => hne (sources_injective _ _ e)) hsp
  have hPn : P.Nodup := by
    cases hp : s.showPlaces with
    | false => simp [P, hp]
    | true => simp only [P, hp, if_true]; exact map_html_nodup _ (placeKeys_nodup s)
  have hIn : I.Nodup := map_html_nodup _ (hkeys.1.sublist hksub)
  -- assemble: fixed, then sources, then places, then individuals
  rw [List.nodup_append]
  refine ⟨?_, hIn, ?_⟩
  · rw [List.nodup_append]
    refine ⟨?_, hPn, ?_⟩
    · rw [List.nodup_append]
      refine ⟨hFXn, hSn, ?_⟩
      intro a ha b hb e
      subst e
      obtain ⟨p, _, rfl⟩ := hS a hb
      exact not_fixed_of_key (sourceKey_not_fixed p) (hFX _ ha)
    · intro a ha b hb e
      subst e
      obtain ⟨_, k, hk, rfl⟩ := hP a hb
      have hnr := (placeKey_mem s k hk).1
      rw [hres] at hnr
      rcases List.mem_append.mp ha with ha | ha
      · exact not_fixed_of_key (fun h => hnr (List.mem_append.mpr (Or.inl h))) (hFX _ ha)
      · obtain ⟨p, hp, e⟩ := hS _ ha
        exact hnr (List.mem_append.mpr (Or.inr (List.mem_map.mpr ⟨p, hp, (map_html_inj e).symm⟩)))
  · intro a ha b hb e
    subst e
    obtain ⟨k, rfl, hk⟩ := hI a hb
    have hk1 : k ∉ s.reserved := fun h => hk (by unfold Site.keyPlaces; exact List.mem_append.mpr (Or.inr h))
    rw [hres] at hk1
    rcases List.mem_append.mp ha with ha | ha
    · rcases List.mem_append.mp ha with ha | ha
      · exact not_fixed_of_key (fun h => hk1 (List.mem_append.mpr (Or.inl h))) (hFX _ ha)
      · obtain ⟨p, hp, e⟩ := hS _ ha
        exact hk1 (List.mem_append.mpr (Or.inr (List.mem_map.mpr ⟨p, hp, (map_html_inj e).symm⟩)))
    · obtain ⟨hsp', k', hk', e⟩ := hP _ ha
      apply hk
      unfold Site.keyPlaces
      refine List.mem_append.mpr (Or.inl ?_)
      simp only [fact_keyed, hsp', Bool.and_self, if_true]
      rw [map_html_inj e]; exact hk'

theorem indexLetters_nodup (surnames : List Str) : (indexLetters surnames).Nodup := by
  unfold indexLetters
  simp only []
  rw [List.nodup_append]
  refine ⟨by split <;> simp, ?_, ?_⟩
  · refine List.Nodup.sublist List.filter_sublist ?_
    have : validLetters.Nodup := by decide +kernel
    exact (List.nodup_cons.mp this).2
  · intro a ha b hb e
    subst e
    have hb' := (List.mem_filter.mp hb).1
    have : a = Generated.symbolLetter := by
      split at ha
      · simpa using ha
      · simp at ha
    subst this
    have hv : validLetters.Nodup := by decide +kernel
    exact (List.nodup_cons.mp hv).1 hb'

/-- … with the letters `GetIndexLetters` computes: the only hypothesis left is that the source
    records have distinct pointers -/
theorem site_names_injective_letters (s : Site) (surnames : List Str) (h : s.letters = indexLetters surnames)
    (hsp : s.sourcePtrs.Nodup) : s.fileNames.Nodup :=
  site_names_injective s (fun l hl => indexLetters_range surnames l (h ▸ hl))
    (h ▸ indexLetters_nodup surnames) hsp

/-- what the reserved keys are for: with a nil places map and no reserved keys (the code before
    the repairs) a person and a place get the same file, "Oldtown" born in "Oldtown", and a
    person called "Places" gets the file of the place list -/
theorem names_injective_counterexample :
    individualKeys [bs!"Oldtown"] [] = [bs!"oldtown"]
    ∧ (placeEntries [bs!"Oldtown"]).map (·.1) = [bs!"oldtown"]
    ∧ individualKeys [bs!"Oldtown"] [bs!"oldtown"] = [bs!"oldtown-1"]
    ∧ individualKeys [bs!"Places"] [] = [bs!"places"]
    ∧ individualKeys [bs!"Places"] fixedKeys = [bs!"places-1"] := by
  decide +kernel

/-! ## The naming rules are the source (go/ast translation, `Generated.PublishSrc`) -/

section Source
open Gedcom.PublishSrc

/-- every translated piece of `sourceKey`, `isFixedPageKey`, `getUniqueKey` and
    `indexLetterForSurname` is inside the translated fragment (no `.bad`, every shape recognised) -/
theorem naming_source_translated :
    Generated.sourceKeySrc.ok = true ∧ Generated.fixedSrc.ok = true
    ∧ Generated.uniqueKeySrc.ok = true ∧ Generated.indexLetterSrc.ok = true := by decide

theorem byte_lift (P : UInt8 → Prop) (h : ∀ n, n < 256 → P (UInt8.ofNat n)) (c : UInt8) : P c := by
  have := h c.toNat (UInt8.toNat_lt c)
  simpa using this

/-- the byte rule of `sourceKey` in the source (which bytes the case keeps, `_%02x` for the
    others) is the per-byte table the model uses, for all 256 bytes … -/
theorem sourceKey_byte_is_the_source (c : UInt8) :
    Generated.sourceKeySrc.byte c = Generated.sourceKeyByte.getD c.toNat [c] := by
  refine byte_lift (fun c => Generated.sourceKeySrc.byte c = Generated.sourceKeyByte.getD c.toNat [c]) ?_ c
  decide +kernel

/-- … the rewrite of a key that names a fixed page (`_%02x%s` of `key[0]`, `key[1:]`) is
    `escapeFirst` … -/
theorem sourceKey_escape_is_the_source (k : Str) (hk : k ≠ []) :
    Generated.sourceKeySrc.escape k = some (escapeFirst k) := by
  cases k with
  | nil => exact absurd rfl hk
  | cons b t => simp [SourceKeySrc.escape, Generated.sourceKeySrc, fmtRun, fmtOne, hex02, escapeFirst]

/-- the page names `isFixedPageKey` compares with, in source order, are the model's fixed names -/
theorem fixed_names_are_the_source : Generated.fixedSrc.names = fixedNames := by decide +kernel

theorem isFixedKey_is_the_source (k : Str) : Generated.fixedSrc.isFixed k = isFixedKey k := by
  have hs : ([46, 104, 116, 109, 108] : Str) = html := by decide
  unfold FixedSrc.isFixed isFixedKey
  rw [fixed_names_are_the_source]
  simp [Generated.fixedSrc, fmtRun, fmtOne, hs]

/-- … so the model's `sourceKey` is the source's, for every pointer -/
theorem sourceKey_is_the_source (ptr : Str) :
    sourceKey ptr = sourceKeyOf Generated.sourceKeySrc Generated.fixedSrc ptr := by
  have hraw : sourceKeyRaw ptr = ptr.flatMap Generated.sourceKeySrc.byte := by
    unfold sourceKeyRaw
    congr 1
    funext c
    exact (sourceKey_byte_is_the_source c).symm
  unfold sourceKey sourceKeyOf
  simp only [fact_escapes, Bool.true_and, ← hraw, isFixedKey_is_the_source]
  split
  · rename_i h
    have hne : sourceKeyRaw ptr ≠ [] := (fact_fixed_head _ ((isFixedKey_iff _).mp h)).2
    rw [sourceKey_escape_is_the_source _ hne]; rfl
  · rfl

/-- the numbered candidate of `getUniqueKey` (`%s-%d` of `s`, `i`, for `i > 0`) is `candidate` -/
theorem uniqueKey_candidate_is_the_source (s : Str) (i : Nat) :
    Generated.uniqueKeySrc.candidate s i = some (candidate s i) := by
  unfold UniqueKeySrc.candidate candidate
  split
  · rfl
  · simp [Generated.uniqueKeySrc, fmtRun, fmtOne]

/-- the `continue` conditions of the probing loop, in source order: a candidate is passed over iff
    it is an individual key, a place key, a reserved key or a fixed page key — checked for every
    candidate, numbered ones included -/
theorem uniqueKey_skip_is_the_source (taken places reserved : List Str) (c : Str) :
    Generated.uniqueKeySrc.skip Generated.fixedSrc.isFixed taken places reserved c
      = (taken.contains c || (places ++ (fixedKeys ++ reserved)).contains c) := by
  have hf : isFixedKey c = fixedKeys.contains c := by
    rw [Bool.eq_iff_iff, isFixedKey_iff]; simp
  simp only [UniqueKeySrc.skip, Generated.uniqueKeySrc, List.any_cons, List.any_nil, KCond.eval,
    isFixedKey_is_the_source, hf, Bool.or_false]
  rw [Bool.eq_iff_iff]
  simp only [Bool.or_eq_true, List.contains_iff_mem, List.mem_append]
  constructor
  · rintro (h | h | h | h)
    · exact Or.inl h
    · exact Or.inr (Or.inl h)
    · exact Or.inr (Or.inr (Or.inr h))
    · exact Or.inr (Or.inr (Or.inl h))
  · rintro (h | h | h | h)
    · exact Or.inl h
    · exact Or.inr (Or.inl h)
    · exact Or.inr (Or.inr (Or.inr h))
    · exact Or.inr (Or.inr (Or.inl h))

/-- **`getUniqueKey` is the source**: the model's search (`uniqueKey`, with the reserved keys among
    the keys to keep off — what `names_injective` and `site_names_injective` are about) takes the
    first candidate of the source's loop that none of its `continue` conditions passes over -/
theorem uniqueKey_is_the_source (taken places reserved : List Str) (s : Str) :
    uniqueKey taken (places ++ (fixedKeys ++ reserved)) s
      = ((List.range (taken.length + (places ++ (fixedKeys ++ reserved)).length + 1)).filterMap
          (Generated.uniqueKeySrc.candidate s)).find?
          (fun c => !Generated.uniqueKeySrc.skip Generated.fixedSrc.isFixed taken places reserved c) := by
  unfold uniqueKey
  have hm : (List.range (taken.length + (places ++ (fixedKeys ++ reserved)).length + 1)).filterMap
      (Generated.uniqueKeySrc.candidate s)
      = (List.range (taken.length + (places ++ (fixedKeys ++ reserved)).length + 1)).map (candidate s) := by
    rw [← List.filterMap_eq_map]
    congr 1
    funext i
    exact uniqueKey_candidate_is_the_source s i
  rw [hm]
  congr 1
  funext c
  rw [uniqueKey_skip_is_the_source]
  simp [Bool.not_or]

/-- the index-letter rule of the source (`name == ""`, `name[0] < 'a'`, `name[0] > 'z'` give the
    symbol letter, else the first byte of the lower-cased surname) is `indexLetter` -/
theorem indexLetter_is_the_source (surname : Str) :
    Generated.indexLetterSrc.letter (lowerFirst surname) = indexLetter surname := by
  unfold indexLetter
  cases lowerFirst surname with
  | none => decide
  | some b =>
    simp only []
    refine byte_lift (fun b => Generated.indexLetterSrc.letter (some b)
      = if (b < 97 || b > 122) = true then Generated.symbolLetter else b) ?_ b
    decide +kernel

end Source

/-! ## Links -/

/-- **Links are closed** (links to individuals): in every page group — constructed before or after
    the places were collected — a link to the i-th individual is `#` (hidden) or names a generated
    file, provided individual pages are published. -/
theorem links_closed (s : Site) (late : Bool) (i : Nat) (hs : s.showIndividuals = true) :
    pageIndividualV s.names s.hidden (s.linkPlaces late) i = [35]
    ∨ pageIndividualV s.names s.hidden (s.linkPlaces late) i ∈ s.fileNames := by
  have hlp : s.linkPlaces late = s.keyPlaces := by
    simp [Site.linkPlaces, Site.keyPlaces, fact_keyed, Bool.and_comm]
  rw [hlp]
  unfold pageIndividualV pageIndividual
  cases s.hidden.getD i false with
  | true => exact Or.inl rfl
  | false =>
    simp only [Bool.false_eq_true, if_false]
    cases hk : (individualKeys (keyedNames s.names s.hidden) s.keyPlaces)[keyRank s.hidden i]? with
    | none => exact Or.inl rfl
    | some k =>
      right
      simp only []
      unfold Site.fileNames
      simp only [hs, if_true, List.mem_append]
      refine Or.inl (Or.inl (Or.inl (Or.inl (Or.inl (Or.inr ?_)))))
      unfold Site.individualFiles Site.individualPageKeys
      simp only [fact_skip, if_true]
      exact List.mem_map.mpr ⟨k, List.mem_of_getElem? hk, rfl⟩

/-- **Links are closed** (links to places): `#` or the page of a published place -/
theorem place_links_closed (s : Site) (pretty : Str) (hs : s.showPlaces = true) :
    pagePlace pretty s.placeEntries = [35]
    ∨ pagePlace pretty s.placeEntries ∈ s.fileNames := by
  unfold pagePlace
  cases hf : s.placeEntries.find? (fun kv => kv.2 == pretty) with
  | none => exact Or.inl rfl
  | some kv =>
    right
    simp only []
    unfold Site.fileNames
    simp only [hs, if_true, List.mem_append]
    refine Or.inl (Or.inl (Or.inl (Or.inl (Or.inr ?_))))
    refine List.mem_cons_of_mem _ ?_
    unfold Site.placeFiles Site.placeKeys
    exact List.mem_map.mpr ⟨kv.1, List.mem_map.mpr ⟨kv, List.mem_of_find?_eq_some hf, rfl⟩, rfl⟩

theorem indexLetter_mem (surnames : List Str) (sn : Str) (h : sn ∈ surnames) :
    indexLetter sn ∈ indexLetters surnames := by
  have hm : indexLetter sn ∈ surnames.map indexLetter := List.mem_map.mpr ⟨sn, h, rfl⟩
  unfold indexLetters
  rcases indexLetter_range sn with he | hr
  · refine List.mem_append.mpr (Or.inl ?_)
    have : (surnames.map indexLetter).contains Generated.symbolLetter = true := by
      rw [← he]; exact List.contains_iff_mem.mpr hm
    rw [if_pos this, he]; simp
  · refine List.mem_append.mpr (Or.inr (List.mem_filter.mpr ⟨?_, by simpa using hm⟩))
    refine List.mem_map.mpr ⟨(indexLetter sn).toNat - 97, List.mem_range.mpr (by omega), ?_⟩
    have : 97 + ((indexLetter sn).toNat - 97) = (indexLetter sn).toNat := by omega
    rw [this]; simp

/-- **Links are closed** (letter links): the link of a surname on the surname page goes to the
    individual list page of that surname's letter, which is generated whenever somebody listed
    has the surname — digits, symbols and multi-byte letters go to the symbol page. -/
theorem letter_links_closed (surnames : List Str) (sn : Str) (h : sn ∈ surnames) :
    surnameLinkPage sn ∈ (indexLetters surnames).map pageIndividuals := by
  unfold surnameLinkPage
  simp only [naming_facts.2.2.2.2.2.2.2, if_true]
  exact List.mem_map.mpr ⟨_, indexLetter_mem surnames sn h, rfl⟩

/-- what is *not* closed: with a page group switched off, the other pages still link into it —
    known finding (`-no-individuals`: the family page links to `ann-smith.html`) -/
theorem links_disabled_group_counterexample :
    let s : Site := { names := [bs!"Ann Smith"], hidden := [false], letters := [115],
                      places := [], sourcePtrs := [],
                      showIndividuals := false, showPlaces := true, showFamilies := true,
                      showSurnames := true, showSources := true, showStatistics := true }
    pageIndividualV s.names s.hidden (s.linkPlaces true) 0 = bs!"ann-smith.html"
    ∧ pageIndividualV s.names s.hidden (s.linkPlaces true) 0 ∉ s.fileNames := by
  decide +kernel

/-! ## Determinism -/

/-- **The names are a function of the inputs only**: the Go code looks an individual up by
    ranging over a map, in an order the runtime picks anew every time; whatever that order is
    (`order` = any permutation of the entries), the page name is the one the model computes — so
    the file names and the links do not depend on the run, the schedule or the history. -/
theorem deterministic_in_inputs (names places : List Str) (order : List (Str × Nat))
    (hp : order.Perm (individualEntries names places)) (hidden : Bool) (i : Nat) :
    pageIndividualIn order hidden i = pageIndividual names places hidden i := by
  unfold pageIndividualIn pageIndividual
  cases hidden with
  | true => rfl
  | false =>
    simp only [Bool.false_eq_true, if_false]
    have hu : ∀ a ∈ order, ∀ b ∈ order, (a.2 == i) = true → (b.2 == i) = true → a = b := by
      intro a ha b hb h1 h2
      have ha' := hp.mem_iff.mp ha
      have hb' := hp.mem_iff.mp hb
      simp at h1 h2
      exact zipIdx_snd_unique _ 0 a ha' b hb' (h1.trans h2.symm)
    rw [find_perm_unique _ order _ hp hu]
    have := zipIdx_find (individualKeys names places) 0 i
    simp only [Nat.add_zero] at this
    unfold individualEntries
    rw [this]
    cases (individualKeys names places)[i]? <;> rfl

/-- the same for places, from the PLAC values of the file: the pretty name of a value and its key
    are functions of the value (`prettyPlaceName`, `sanitize`, the reserved keys), the first
    spelling in the document names the page, and `PagePlace`, which ranges over the places map, gives
    the same page for every iteration order (`order` = any permutation of the entries) -/
theorem deterministic_places (s : Site) (order : List (Str × Str))
    (hp : order.Perm (placeEntriesR s.reserved (s.places.map prettyOf))) (pretty : Str) :
    pagePlace pretty order = pagePlace pretty s.placeEntries := by
  unfold pagePlace Site.placeEntries
  have hu : ∀ a ∈ order, ∀ b ∈ order, (a.2 == pretty) = true → (b.2 == pretty) = true → a = b := by
    intro a ha b hb h1 h2
    have ha' := placeEntriesR_key _ _ a (hp.mem_iff.mp ha)
    have hb' := placeEntriesR_key _ _ b (hp.mem_iff.mp hb)
    simp at h1 h2
    have h2' : a.2 = b.2 := h1.trans h2.symm
    exact Prod.ext (by rw [ha', hb', h2']) h2'
  rw [find_perm_unique _ order _ hp hu]

/-- `prettyPlaceName` on the spellings that share a page: one pretty name, one key -/
example : prettyOf bs!"Paris,,France" = bs!"Paris, France" ∧ prettyOf bs!" ,Paris,France, " = bs!"Paris, France"
    ∧ prettyOf bs!",," = bs!"(none)" ∧ sanitize (prettyOf bs!"Old,Town") = bs!"old-town" := by
  decide +kernel

/-! ## Non-vacuity -/

/-- a failing writer at the third call, two jobs, one concrete schedule: the run ends with
    `Publish` returned, the error recorded and the other files written -/
example :
    let s := runSched 2 (fun n => n == 2) 100 [3, 1, 4, 1, 5, 9, 2, 6] (St.init [0, 1, 2, 3, 4] 2)
    s.workers = [.failed, .done] ∧ s.err = some 2 ∧ s.log.length = 5 := by decide +kernel

/-- the hypotheses of `schedule_independent` are met by a real run: 16 jobs, 3 files -/
example :
    let s := runSched 16 (fun _ => false) 200 [7, 2, 9, 4, 1, 1, 8, 3, 5] (St.init [0, 1, 2] 16)
    s.workers.all (· == .done) = true ∧ s.log.length = 3 ∧ s.err = none := by decide +kernel

example : individualKeys [bs!"Old Town", bs!"old-town", bs!"Old,Town"] [bs!"old-town-2"]
    = [bs!"old-town", bs!"old-town-1", bs!"old-town-3"] := by decide +kernel

example : sanitize bs!"../x" = bs!"-x" ∧ sanitize bs!"a/b" = bs!"a-b" ∧ sanitize bs!"王 1st" = bs!"-1st" := by
  decide +kernel

/-- a site that meets the hypotheses of `names_confined`, `site_names_injective` and `links_closed`
    with hostile input: a person called like a place, like a fixed page and like a source; a place
    called like a fixed page; sources called like a fixed page and with path separators -/
example :
    let s : Site := { names := [bs!"../x", bs!"Oldtown", bs!"Places", bs!"s1"], hidden := [false, false, false, false],
                      letters := [35, 111, 112, 115],
                      places := [bs!"Oldtown", bs!"a/b", bs!"Statistics", bs!"statistics"],
                      sourcePtrs := [bs!"S/../x", bs!"sources", bs!"s1"],
                      showIndividuals := true, showPlaces := true, showFamilies := true,
                      showSurnames := true, showSources := true, showStatistics := true }
    s.fileNames.all plain = true ∧ s.fileNames.Nodup ∧ s.letters.Nodup ∧ s.sourcePtrs.Nodup
    ∧ pageIndividualV s.names s.hidden (s.linkPlaces false) 1 = bs!"oldtown-1.html"
    ∧ pageIndividualV s.names s.hidden (s.linkPlaces false) 2 = bs!"places-1.html"
    ∧ pageIndividualV s.names s.hidden (s.linkPlaces false) 3 = bs!"s1-1.html"
    ∧ s.placeKeys = [bs!"oldtown", bs!"a-b", bs!"statistics-1"]
    ∧ s.sourceFiles = [bs!"S_2f_2e_2e_2fx.html", bs!"_73ources.html", bs!"s1.html"] := by
  decide +kernel

/-- a hidden living person takes no page name: the dead namesake is `ann-smith.html` -/
example : individualKeysV [bs!"Ann Smith", bs!"Ann Smith", bs!"Bob"] [true, false, false] []
    = [none, some bs!"ann-smith", some bs!"bob"]
    ∧ pageIndividualV [bs!"Ann Smith", bs!"Ann Smith"] [true, false] [] 1 = bs!"ann-smith.html"
    ∧ pageIndividualV [bs!"Ann Smith", bs!"Ann Smith"] [true, false] [] 0 = bs!"#"
    ∧ pageIndividualV [bs!"Ann Smith", bs!"Ann Smith"] [false, false] [] 1 = bs!"ann-smith-1.html" := by
  decide +kernel

/-- records that share a pointer: the model has no pointers at all — an individual is its position
    in the document (what `PageIndividual` does since it looks the record itself up), so three
    records `@I1@` with different or equal names keep their own keys -/
example : individualKeysV [bs!"Ann Smith", bs!"Bob Jones", bs!"Ann Smith"] [false, false, false] []
    = [some bs!"ann-smith", some bs!"bob-jones", some bs!"ann-smith-1"]
    ∧ pageIndividualV [bs!"Ann Smith", bs!"Bob Jones", bs!"Ann Smith"] [false, false, false] [] 2 = bs!"ann-smith-1.html" := by
  decide +kernel

end Gedcom.C19
