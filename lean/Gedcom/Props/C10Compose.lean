/-
  C10 — the composition.  `MergeDocumentsAndIndividuals` as C11's matching followed by C09's
  merges (`Gedcom.MergeD.mergeDocs`, the function the driver runs for the `mergedocs` requests):
  * `accounting_composed`      — from C11 `valid_matching` + `no_empty_result`;
  * `facts_of_both`            — from C09 `nothing_lost_partial` (its guard) + `nothing_invented`;
  * `output_redecodes_partial` — from C01 `decode_encode` via `merged_legal` (the merged records are
    built from headers of the inputs: C09 `nothing_invented`, `nothing_invented_slices`; inputs
    that come out of the decoder are legal: C02 `decode_legal`); the role-node order condition of
    `C01.Legal` on the output is an explicit decidable guard, evaluated by the driver on every case.
-/
import Gedcom.Model.MergeDocs
import Gedcom.Props.C01
import Gedcom.Props.C02
import Gedcom.Props.C09
import Gedcom.Props.C11
namespace Gedcom.C10
open Gedcom Gedcom.Match Gedcom.MergeD Gedcom.Dec

/-! ### the loop of `IndividualNodes.Merge` -/

theorem cons_ok {c : Res} {m : INode} {o : IndisOutcome} {out : List (Res × INode)} {st : MSt}
    (h : o.cons c m = .ok out st) : ∃ out0, o = .ok out0 st ∧ out = (c, m) :: out0 := by
  cases o with
  | ok out0 s =>
    simp only [IndisOutcome.cons, IndisOutcome.ok.injEq] at h
    exact ⟨out0, by rw [h.2], h.1.symm⟩
  | error => simp [IndisOutcome.cons] at h
  | panic => simp [IndisOutcome.cons] at h
  | outOfFuel => simp [IndisOutcome.cons] at h

theorem byId_of_mem {l : List INode} {x : Nat} (h : x ∈ l.map INode.id) :
    ∃ n, byId l x = some n := by
  obtain ⟨n, hn, rfl⟩ := List.mem_map.mp h
  have : (l.find? fun k => k.id == n.id).isSome = true := by
    rw [List.find?_isSome]; exact ⟨n, hn, by simp⟩
  exact Option.isSome_iff_exists.mp this

theorem byId_some {l : List INode} {x : Nat} {n : INode} (h : byId l x = some n) : n ∈ l ∧ n.id = x := by
  unfold byId at h
  exact ⟨List.mem_of_find?_eq_some h, by simpa using List.find?_some h⟩

/-- a comparison names nodes of the two lists and is not empty (what C11 `no_empty_result` gives) -/
def GoodRes (L R : List INode) (c : Res) : Prop :=
  c ≠ (none, none) ∧ (∀ x, c.1 = some x → x ∈ L.map INode.id) ∧ (∀ y, c.2 = some y → y ∈ R.map INode.id)

/-- every good comparison yields exactly one output individual, in order -/
theorem mergeIndis_srcs (L R : List INode) : ∀ (res : List Res) (st : MSt) (out : List (Res × INode)) (st' : MSt),
    (∀ c ∈ res, GoodRes L R c) → mergeIndis L R res st = .ok out st' → out.map (·.1) = res := by
  intro res
  induction res with
  | nil => intro st out st' _ h; simp only [mergeIndis, IndisOutcome.ok.injEq] at h; rw [← h.1]; rfl
  | cons c rest ih =>
    intro st out st' hg h
    have hc := hg c (by simp)
    have hrest : ∀ c ∈ rest, GoodRes L R c := fun c' hc' => hg c' (by simp [hc'])
    obtain ⟨a, b⟩ := c
    cases a with
    | none =>
      cases b with
      | none => exact absurd rfl hc.1
      | some b =>
        obtain ⟨r, hr⟩ := byId_of_mem (hc.2.2 b rfl)
        simp only [mergeIndis, hr] at h
        obtain ⟨out0, h0, rfl⟩ := cons_ok h
        simp [ih _ _ _ hrest h0]
    | some a =>
      obtain ⟨l, hl⟩ := byId_of_mem (hc.2.1 a rfl)
      cases b with
      | none =>
        simp only [mergeIndis, hl] at h
        obtain ⟨out0, h0, rfl⟩ := cons_ok h
        simp [ih _ _ _ hrest h0]
      | some b =>
        obtain ⟨r, hr⟩ := byId_of_mem (hc.2.2 b rfl)
        simp only [mergeIndis, hl, hr] at h
        split at h
        · obtain ⟨out0, h0, rfl⟩ := cons_ok h
          simp [ih _ _ _ hrest h0]
        all_goals cases h

/-- what each output individual is: an unmatched individual is the input node itself (carried
    over by reference), a pair is `MergeNodes(left, right)` -/
theorem output_of_comparison (L R : List INode) : ∀ (res : List Res) (st : MSt) (out : List (Res × INode)) (st' : MSt),
    mergeIndis L R res st = .ok out st' → ∀ c m, (c, m) ∈ out →
      (∃ a, c = (some a, none) ∧ byId L a = some m) ∨
      (∃ b, c = (none, some b) ∧ byId R b = some m) ∨
      (∃ a b l r s0 s1, c = (some a, some b) ∧ byId L a = some l ∧ byId R b = some r ∧
        mergeNodes codeFlags l r s0 = .ok m s1) := by
  intro res
  induction res with
  | nil =>
    intro st out st' h c m hm
    simp only [mergeIndis, IndisOutcome.ok.injEq] at h
    rw [← h.1] at hm; simp at hm
  | cons c0 rest ih =>
    intro st out st' h c m hm
    obtain ⟨a, b⟩ := c0
    cases a with
    | none =>
      cases b with
      | none => simp only [mergeIndis] at h; exact ih _ _ _ h c m hm
      | some b =>
        simp only [mergeIndis] at h
        split at h
        · rename_i r hr
          obtain ⟨out0, h0, rfl⟩ := cons_ok h
          rcases List.mem_cons.mp hm with e | hm'
          · cases e; exact Or.inr (Or.inl ⟨b, rfl, hr⟩)
          · exact ih _ _ _ h0 c m hm'
        · exact ih _ _ _ h c m hm
    | some a =>
      cases b with
      | none =>
        simp only [mergeIndis] at h
        split at h
        · rename_i l hl
          obtain ⟨out0, h0, rfl⟩ := cons_ok h
          rcases List.mem_cons.mp hm with e | hm'
          · cases e; exact Or.inl ⟨a, rfl, hl⟩
          · exact ih _ _ _ h0 c m hm'
        · exact ih _ _ _ h c m hm
      | some b =>
        simp only [mergeIndis] at h
        split at h
        · rename_i l r hl hr
          split at h
          · rename_i m0 s1 hmn
            obtain ⟨out0, h0, rfl⟩ := cons_ok h
            rcases List.mem_cons.mp hm with e | hm'
            · cases e; exact Or.inr (Or.inr ⟨a, b, l, r, st, s1, rfl, hl, hr, hmn⟩)
            · exact ih _ _ _ h0 c m hm'
          all_goals cases h
        · exact ih _ _ _ h c m hm

/-! ### accounting, from C11 -/

/-- **accounting_composed.**  Let the comparisons be what C11's model of `Compare` produces for
    *any* order of arrival of the similarity results (`Match.winners … arrival`, persons = the
    individuals of the two documents, C11's guards on the inputs).  If the merge of the
    individuals succeeds, it yields exactly one output individual per comparison, and every
    individual of either input is accounted for by exactly one output individual. -/
theorem accounting_composed (Lp Rp : List Person) (L R : List INode)
    (hL : Lp.map (·.id) = L.map INode.id) (hR : Rp.map (·.id) = R.map INode.id)
    (scoreT scoreF : Nat → Nat → Rat) (prefer minW : Rat)
    (ch : Person → Option Person) (s0 : Sent) (arrival : List Job)
    (hperm : arrival.Perm (jobsFrom ch s0 Lp Rp scoreT scoreF prefer)) (hadm : Admissible Rp ch)
    (hids : IdsOK Lp Rp) (hp : PtrsOK Lp Rp)
    (st st' : MSt) (out : List (Res × INode))
    (h : mergeIndis L R (winners Lp Rp minW arrival) st = .ok out st') :
    out.map (·.1) = winners Lp Rp minW arrival ∧
    (∀ x ∈ L.map INode.id, leftCount x (out.map (·.1)) = 1) ∧
    (∀ y ∈ R.map INode.id, rightCount y (out.map (·.1)) = 1) := by
  have hgood : ∀ c ∈ winners Lp Rp minW arrival, GoodRes L R c := by
    intro c hc
    obtain ⟨h1, h2, h3⟩ := C11.no_empty_result Lp Rp scoreT scoreF prefer minW ch s0 arrival hperm hadm c hc
    exact ⟨h1, fun x hx => hL ▸ h2 x hx, fun y hy => hR ▸ h3 y hy⟩
  have hsrc := mergeIndis_srcs L R _ _ _ _ hgood h
  obtain ⟨v1, v2⟩ := C11.valid_matching Lp Rp scoreT scoreF prefer minW ch s0 arrival hperm hadm hids hp
  rw [hsrc]
  exact ⟨rfl, fun x hx => v1 x (hL ▸ hx), fun y hy => v2 y (hR ▸ hy)⟩

/-! ### facts of both, from C09 -/

/-- **facts_of_both.**  Every output individual made from a pair `(left, right)` keeps the left
    record's tag, value and *pointer* and represents every node of the left individual and of the
    right individual by an Equal node under an Equal parent, all the way down (C09's `covers`).
    Guard (C09's): no RESI / EVEN node in the individuals, DATE values in `D`, `Equals`
    transitive on `D`.  An unmatched individual is the input node itself. -/
theorem facts_of_both (D : List Str) (hD : dateTrans D = true) (L R : List INode)
    (hplain : ∀ n ∈ L ++ R, plainOK D n.erase = true)
    (res : List Res) (st st' : MSt) (out : List (Res × INode))
    (h : mergeIndis L R res st = .ok out st') (a b : Nat) (m : INode)
    (hm : ((some a, some b), m) ∈ out) :
    ∃ l r, byId L a = some l ∧ byId R b = some r ∧ sameHdr m.erase l.erase ∧
      covers l.erase m.erase = true ∧
      ∀ k ∈ r.erase.kids, ∃ k' ∈ m.erase.kids, covers k k' = true := by
  rcases output_of_comparison L R res st out st' h _ m hm with ⟨a', e, _⟩ | ⟨b', e, _⟩ | ⟨a', b', l, r, s0, s1, e, hl, hr, hmn⟩
  · simp at e
  · simp at e
  · simp only [Prod.mk.injEq, Option.some.injEq] at e
    obtain ⟨rfl, rfl⟩ := e
    have hlp := hplain l (by simp [(byId_some hl).1])
    have hrp := hplain r (by simp [(byId_some hr).1])
    obtain ⟨hk, hcl, _⟩ := C09.nothing_lost_partial D hD codeFlags l r m s0 s1 hlp hrp hmn
    have hinv := (C09.nothing_invented codeFlags l r m s0 s1 hmn).2
    exact ⟨l, r, hl, hr, hinv, hcl, fun k hk' => hk k (by simp [hk'])⟩

/-! ### the merged document decodes again, from C01 / C02 / C09 -/

mutual
theorem legalT_of_hdrs : ∀ (n : Node), (∀ d h, h ∈ levelAt d n → LegalHdr h.1 h.2.1 h.2.2) → LegalT n
  | .mk t v p ks, h => by
    rw [LegalT]
    refine ⟨by simpa using h 0 (t, v, p) (by simp [levelAt]), legalF_of_hdrs ks ?_⟩
    intro d hh hm
    exact h (d + 1) hh (by simpa [levelAt] using hm)
theorem legalF_of_hdrs : ∀ (ks : List Node), (∀ d h, h ∈ levelAtList d ks → LegalHdr h.1 h.2.1 h.2.2) → LegalF ks
  | [], _ => by rw [LegalF]; trivial
  | k :: ks, h => by
    rw [LegalF]
    exact ⟨legalT_of_hdrs k (fun d hh hm => h d hh (by simp [levelAtList, hm])),
      legalF_of_hdrs ks (fun d hh hm => h d hh (by simp [levelAtList, hm]))⟩
end

mutual
theorem hdrs_of_legalT : ∀ (n : Node), LegalT n → ∀ d h, h ∈ levelAt d n → LegalHdr h.1 h.2.1 h.2.2
  | .mk t v p ks, hl, d, h, hm => by
    rw [LegalT] at hl
    cases d with
    | zero => simp only [levelAt, List.mem_singleton] at hm; subst hm; exact hl.1
    | succ d => exact hdrs_of_legalF ks hl.2 d h (by simpa [levelAt] using hm)
theorem hdrs_of_legalF : ∀ (ks : List Node), LegalF ks → ∀ d h, h ∈ levelAtList d ks → LegalHdr h.1 h.2.1 h.2.2
  | [], _, d, h, hm => by simp [levelAtList] at hm
  | k :: ks, hl, d, h, hm => by
    rw [LegalF] at hl
    simp only [levelAtList, List.mem_append] at hm
    rcases hm with hm | hm
    · exact hdrs_of_legalT k hl.1 d h hm
    · exact hdrs_of_legalF ks hl.2 d h hm
end

theorem legalF_iff (ks : List Node) : LegalF ks ↔ ∀ k ∈ ks, LegalT k := by
  induction ks with
  | nil => simp [LegalF]
  | cons k ks ih => rw [LegalF, ih]; simp

/-- a tree whose headers all stem from legal trees is legal -/
theorem legalT_fromNodes {xs : List Node} {v : Node} (hx : LegalF xs) (h : FromNodes xs v) : LegalT v :=
  legalT_of_hdrs v fun d hh hm => hdrs_of_legalF xs hx d hh (h d hh hm)

theorem legalF_filter {l : List INode} (p : INode → Bool) (h : LegalF (eraseList l)) :
    LegalF (eraseList (l.filter p)) := by
  rw [eraseList_eq_map, legalF_iff] at *
  intro k hk
  obtain ⟨n, hn, rfl⟩ := List.mem_map.mp hk
  exact h _ (List.mem_map.mpr ⟨n, (List.mem_filter.mp hn).1, rfl⟩)

/-- **merged_legal.**  The records of the merged document consist of legal parts whenever the
    records of both inputs do (as everything the decoder accepts does: C02 `decode_legal`):
    every header of the output is a header of an input (C09 `nothing_invented`). -/
theorem merged_legal (res : List Res) (Ld Rd : List INode) (st st' : MSt)
    (indis : List (Res × INode)) (others : List INode)
    (hl : LegalF (eraseList Ld)) (hr : LegalF (eraseList Rd))
    (h : mergeDocs res Ld Rd st = .ok indis others st') :
    LegalF (eraseList (indis.map (·.2)) ++ eraseList others) := by
  unfold mergeDocs at h
  split at h
  · cases h
  · cases h
  · cases h
  · rename_i out s1 hind
    simp only at h
    split at h
    · cases h
    · cases h
    · rename_i es s2 hsl
      simp only [DocOutcome.ok.injEq] at h
      obtain ⟨rfl, rfl, rfl⟩ := h
      have hLi := legalF_filter isIndi hl
      have hRi := legalF_filter isIndi hr
      have hLo := legalF_filter (fun n => !isIndi n) hl
      have hRo := legalF_filter (fun n => !isIndi n) hr
      rw [legalF_iff]
      intro k hk
      rcases List.mem_append.mp hk with hk | hk
      · rw [eraseList_eq_map] at hk
        obtain ⟨n, hn, rfl⟩ := List.mem_map.mp hk
        obtain ⟨⟨c, m⟩, hcm, rfl⟩ := List.mem_map.mp hn
        rw [eraseList_eq_map, legalF_iff] at hLi hRi
        rcases output_of_comparison _ _ res st out s1 hind c m hcm with
          ⟨a, _, ha⟩ | ⟨b, _, hb⟩ | ⟨a, b, l, r, s0, s1', _, hla, hrb, hmn⟩
        · exact hLi _ (List.mem_map.mpr ⟨m, (byId_some ha).1, rfl⟩)
        · exact hRi _ (List.mem_map.mpr ⟨m, (byId_some hb).1, rfl⟩)
        · have hinv := (C09.nothing_invented codeFlags l r m s0 s1' hmn).1
          refine legalT_fromNodes (xs := [l.erase, r.erase]) ?_ hinv
          rw [legalF_iff]
          intro x hx
          simp only [List.mem_cons, List.not_mem_nil, or_false] at hx
          rcases hx with rfl | rfl
          · exact hLi _ (List.mem_map.mpr ⟨l, (byId_some hla).1, rfl⟩)
          · exact hRi _ (List.mem_map.mpr ⟨r, (byId_some hrb).1, rfl⟩)
      · rw [eraseList_eq_map] at hk
        obtain ⟨n, hn, rfl⟩ := List.mem_map.mp hk
        obtain ⟨e, he, rfl⟩ := List.mem_map.mp hn
        have hes : es = (mergeNodeSlicesP codeFlags
            (eqMergeF codeFlags (mergeFuel (othersOf Ld) (othersOf Rd))) (othersOf Ld) (othersOf Rd) s1).1 := by
          unfold mergeNodeSlicesO at hsl
          simp only at hsl
          split at hsl
          · cases hsl
          · split at hsl
            · cases hsl
            · simp only [SliceOutcome.ok.injEq] at hsl; exact hsl.1.symm
        rw [hes] at he
        have hinv := (C09.nothing_invented_slices codeFlags _ (othersOf Ld) (othersOf Rd) s1).1 e he
        refine legalT_fromNodes (xs := (othersOf Ld ++ othersOf Rd).map INode.erase) ?_ hinv
        rw [List.map_append, ← eraseList_eq_map, ← eraseList_eq_map, legalF_iff]
        intro x hx
        rcases List.mem_append.mp hx with hx | hx
        · exact (legalF_iff _).mp hLo x hx
        · exact (legalF_iff _).mp hRo x hx

/-- **output_redecodes_partial.**  If both inputs consist of legal parts and the merged records
    satisfy the role-order condition of `C01.Legal` (every HUSB / WIFE / CHIL node after some FAM
    node: explicit, decidable guard — the driver evaluates `legalDocB` on every generated case
    and the correspondence shows it), the merged document serialises to text that decodes to the
    same document again, with any decoder options. -/
theorem output_redecodes_partial (res : List Res) (Ld Rd : List INode) (st st' : MSt)
    (indis : List (Res × INode)) (others : List INode) (bom : Bool) (o : Opts)
    (hl : LegalF (eraseList Ld)) (hr : LegalF (eraseList Rd))
    (h : mergeDocs res Ld Rd st = .ok indis others st')
    (hroles : rolesOKF false (eraseList (indis.map (·.2)) ++ eraseList others) = true) :
    decode o (encode ⟨bom, eraseList (indis.map (·.2)) ++ eraseList others⟩) =
      .ok ⟨bom, eraseList (indis.map (·.2)) ++ eraseList others⟩ :=
  C01.decode_encode _ ⟨merged_legal res Ld Rd st st' indis others hl hr h, hroles⟩ o

/-! ### the role-order condition, from C09 `roles_below_fam` -/

/-- every HUSB / WIFE / CHIL node of every record lies below a FAM node of that record (decidable
    guard on an *input* document; the driver evaluates it on every generated input) -/
def recordsBelowFam (l : List INode) : Bool := l.all fun n => rolesBelowFam false n.erase

/-- **merged_roles.**  If the role nodes of both inputs sit below their FAM records, the records
    of the merged document satisfy the role-order condition of `C01.Legal`, in the order in which
    the merge emits them (C09 `roles_below_fam`). -/
theorem merged_roles (res : List Res) (Ld Rd : List INode) (st st' : MSt)
    (indis : List (Res × INode)) (others : List INode)
    (hl : recordsBelowFam Ld = true) (hr : recordsBelowFam Rd = true)
    (h : mergeDocs res Ld Rd st = .ok indis others st') :
    rolesOKF false (eraseList (indis.map (·.2)) ++ eraseList others) = true := by
  obtain ⟨rb1, rb2, rb3⟩ := C09.roles_below_fam codeFlags
  simp only [recordsBelowFam, List.all_eq_true] at hl hr
  apply rb3
  unfold mergeDocs at h
  split at h
  · cases h
  · cases h
  · cases h
  · rename_i out s1 hind
    simp only at h
    split at h
    · cases h
    · cases h
    · rename_i es s2 hsl
      simp only [DocOutcome.ok.injEq] at h
      obtain ⟨rfl, rfl, rfl⟩ := h
      intro k hk
      rcases List.mem_append.mp hk with hk | hk
      · rw [eraseList_eq_map] at hk
        obtain ⟨n, hn, rfl⟩ := List.mem_map.mp hk
        obtain ⟨⟨c, m⟩, hcm, rfl⟩ := List.mem_map.mp hn
        rcases output_of_comparison _ _ res st out s1 hind c m hcm with
          ⟨a, _, ha⟩ | ⟨b, _, hb⟩ | ⟨a, b, l, r, s0, s1', _, hla, hrb, hmn⟩
        · exact hl m (List.mem_filter.mp (byId_some ha).1).1
        · exact hr m (List.mem_filter.mp (byId_some hb).1).1
        · exact rb1 l r m s0 s1' hmn (hl l (List.mem_filter.mp (byId_some hla).1).1)
            (hr r (List.mem_filter.mp (byId_some hrb).1).1)
      · rw [eraseList_eq_map] at hk
        obtain ⟨n, hn, rfl⟩ := List.mem_map.mp hk
        obtain ⟨e, he, rfl⟩ := List.mem_map.mp hn
        have hes : es = (mergeNodeSlicesP codeFlags
            (eqMergeF codeFlags (mergeFuel (othersOf Ld) (othersOf Rd))) (othersOf Ld) (othersOf Rd) s1).1 := by
          unfold mergeNodeSlicesO at hsl
          simp only at hsl
          split at hsl
          · cases hsl
          · split at hsl
            · cases hsl
            · simp only [SliceOutcome.ok.injEq] at hsl; exact hsl.1.symm
        rw [hes] at he
        refine rb2 _ (othersOf Ld) (othersOf Rd) s1 ?_ e he
        intro x hx
        rcases List.mem_append.mp hx with hx | hx
        · exact hl x (List.mem_filter.mp hx).1
        · exact hr x (List.mem_filter.mp hx).1

/-- **output_redecodes.**  No run-time guard on the output any more: if both inputs consist of
    legal parts (C02 `decode_legal` for decoded inputs) and their role lines sit below their FAM
    records (`recordsBelowFam`, decidable, on the inputs), the merged document serialises to text
    that decodes to the same document again, with any decoder options. -/
theorem output_redecodes (res : List Res) (Ld Rd : List INode) (st st' : MSt)
    (indis : List (Res × INode)) (others : List INode) (bom : Bool) (o : Opts)
    (hl : LegalF (eraseList Ld)) (hr : LegalF (eraseList Rd))
    (hbl : recordsBelowFam Ld = true) (hbr : recordsBelowFam Rd = true)
    (h : mergeDocs res Ld Rd st = .ok indis others st') :
    decode o (encode ⟨bom, eraseList (indis.map (·.2)) ++ eraseList others⟩) =
      .ok ⟨bom, eraseList (indis.map (·.2)) ++ eraseList others⟩ :=
  output_redecodes_partial res Ld Rd st st' indis others bom o hl hr h
    (merged_roles res Ld Rd st st' indis others hbl hbr h)

/-- inputs that come out of the decoder (without multi-line continuation) are legal -/
theorem decoded_input_legal (o : Opts) (hm : o.allowMultiLine = false) (s : Str) (d : Dec.Doc)
    (h : decode o s = .ok d) : LegalF d.nodes := (C02.decode_legal o hm s d h).nodes

end Gedcom.C10
