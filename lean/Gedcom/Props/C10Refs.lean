/-
  C10 — which references of the merged document resolve, for arbitrary pointer sets.
  `references_resolve_partial` (Props/C10.lean) needs every matched pair to carry the same pointer.
  Here, for any valid matching and any pointers:
  * `fam_refs_always_resolve`   — FAMS / FAMC lines never dangle (no family pointer is lost);
  * `indi_pointer_lost_iff`     — a pointer names no individual of the output exactly when
    `mergedAway` holds of it or it named no individual of either input;
  * `references_resolve_iff`    — for inputs whose references resolve: a HUSB / WIFE / CHIL line of a
    merged family dangles **iff** its target is `mergedAway` (no left individual carries that
    pointer and every right individual that carries it was merged into a left individual, which
    keeps the left pointer), and such a line always stems from a family of the right document —
    exactly what the known finding `merge-does-not-rewrite-pointers` describes; a dangling
    reference of any other kind contradicts the theorem, so it is outside the finding's matcher;
  * `resolves_iff_none_merged_away` — the merged document resolves iff `danglingRefs` is empty;
  * `same_pointers_none_merged_away` — the old guard is a special case.
-/
import Gedcom.Props.C10
namespace Gedcom.C10
open Gedcom.MergeG

theorem isPairR_iff {m : List M} {j : Nat} : m.any (isPairR j) = true ↔ ∃ i, M.both i j ∈ m := by
  simp only [List.any_eq_true]
  constructor
  · rintro ⟨x, hx, h⟩
    cases x with
    | both i j' =>
      have : j' = j := by simpa [isPairR] using h
      subst this; exact ⟨i, hx⟩
    | left _ => simp [isPairR] at h
    | right _ => simp [isPairR] at h
  · rintro ⟨i, h⟩; exact ⟨_, h, by simp [isPairR]⟩

/-- the Prop the Boolean `mergedAway` decides -/
def MergedAway (m : List M) (l r : List Rcd) (p : Nat) : Prop :=
  p ∉ l.map (·.ptr) ∧ p ∈ r.map (·.ptr) ∧ ∀ j b, r[j]? = some b → b.ptr = p → ∃ i, M.both i j ∈ m

theorem mergedAway_iff {m : List M} {l r : List Rcd} {p : Nat} :
    mergedAway m l r p = true ↔ MergedAway m l r p := by
  simp only [mergedAway, MergedAway, Bool.and_eq_true, Bool.not_eq_true', List.any_eq_false,
    List.any_eq_true, List.all_eq_true, List.mem_range, List.mem_map, beq_iff_eq]
  constructor
  · rintro ⟨⟨h1, b, hb, hbp⟩, h3⟩
    refine ⟨?_, ⟨b, hb, hbp⟩, ?_⟩
    · rintro ⟨a, ha, hap⟩; exact h1 a ha hap
    · intro j b' hj hp
      obtain ⟨hlt, _⟩ := List.getElem?_eq_some_iff.mp hj
      have := h3 j hlt
      rw [hj] at this
      simp only [Bool.or_eq_true, bne_iff_ne, ne_eq] at this
      rcases this with h | h
      · exact absurd hp h
      · exact isPairR_iff.mp (List.any_eq_true.mpr (by simpa using h))
  · rintro ⟨h1, ⟨b, hb, hbp⟩, h3⟩
    refine ⟨⟨fun a ha hap => h1 ⟨a, ha, hap⟩, b, hb, hbp⟩, ?_⟩
    intro j hj
    split
    · rename_i b' hb'
      by_cases hp : b'.ptr = p
      · have := isPairR_iff.mpr (h3 j b' hb' hp)
        simp only [Bool.or_eq_true, bne_iff_ne, ne_eq]
        exact Or.inr this
      · simp [hp]
    · rfl

theorem nodup_allSources (nl nr : Nat) : (allSources nl nr).Nodup := by
  unfold allSources
  rw [List.nodup_append]
  refine ⟨?_, ?_, ?_⟩
  · rw [List.Nodup, List.pairwise_map]
    exact (List.nodup_range (n := nl)).imp (by intro a b h e; exact h (by simpa using e))
  · rw [List.Nodup, List.pairwise_map]
    exact (List.nodup_range (n := nr)).imp (by intro a b h e; exact h (by simpa using e))
  · intro a ha b hb e
    simp only [List.mem_map] at ha hb
    obtain ⟨_, _, rfl⟩ := ha
    obtain ⟨_, _, rfl⟩ := hb
    simp at e

/-- in a valid matching a right individual that is merged into a pair is not also carried over -/
theorem pair_excludes_right {m : List M} {nl nr i j : Nat} (hv : ValidMatching m nl nr)
    (hb : M.both i j ∈ m) : M.right j ∉ m := by
  intro hr
  have hnd : (m.flatMap srcs).Nodup := (List.Perm.nodup_iff hv).mpr (nodup_allSources nl nr)
  obtain ⟨s, t, rfl⟩ := List.append_of_mem hb
  simp only [List.flatMap_append, List.flatMap_cons] at hnd
  rw [List.nodup_append] at hnd
  obtain ⟨_, h2, h3⟩ := hnd
  rw [List.nodup_append] at h2
  obtain ⟨_, _, h4⟩ := h2
  rcases List.mem_append.mp hr with h | h
  · exact h3 (true, j) (List.mem_flatMap.mpr ⟨_, h, by simp [srcs]⟩) (true, j) (by simp [srcs]) rfl
  · rcases List.mem_cons.mp h with h | h
    · cases h
    · exact h4 (true, j) (by simp [srcs]) (true, j) (List.mem_flatMap.mpr ⟨_, h, by simp [srcs]⟩) rfl

/-- a right individual of a valid matching is carried over or merged into a pair -/
theorem right_covered {m : List M} {nl nr j : Nat} (hv : ValidMatching m nl nr) (hj : j < nr) :
    M.right j ∈ m ∨ ∃ i, M.both i j ∈ m := by
  have hsrc : (true, j) ∈ m.flatMap srcs := hv.mem_iff.mpr (mem_allSources.mpr (Or.inr ⟨rfl, hj⟩))
  obtain ⟨x, hx, hs⟩ := List.mem_flatMap.mp hsrc
  cases x with
  | both i j' =>
    simp only [srcs, List.mem_cons, Prod.mk.injEq, Bool.true_eq_false, false_and, false_or,
      List.not_mem_nil, true_and, or_false] at hs
    subst hs; exact Or.inr ⟨i, hx⟩
  | left i => simp [srcs] at hs
  | right j' =>
    simp only [srcs, List.mem_cons, Prod.mk.injEq, true_and, List.not_mem_nil, or_false] at hs
    subst hs; exact Or.inl hx

/-- the pointers of the output individuals: every left pointer, and the pointers of the right
    individuals that are carried over unmatched -/
theorem out_ptr_iff {m : List M} {l r : List Rcd} (hv : ValidMatching m l.length r.length) (p : Nat) :
    p ∈ (mergeIndis m l r).map (·.ptr) ↔
      p ∈ l.map (·.ptr) ∨ ∃ j b, r[j]? = some b ∧ b.ptr = p ∧ M.right j ∈ m := by
  have out : ∀ x ∈ m, ∀ rc ss, mergeOne l r x = some (rc, ss) → rc.ptr ∈ (mergeIndis m l r).map (·.ptr) := by
    intro x hx rc ss hrc
    simp only [mergeIndis, mergeIndisSrc, List.map_map, List.mem_map, List.mem_filterMap]
    exact ⟨(rc, ss), ⟨x, hx, hrc⟩, rfl⟩
  constructor
  · intro h
    simp only [mergeIndis, mergeIndisSrc, List.map_map, List.mem_map, List.mem_filterMap] at h
    obtain ⟨⟨o, ss⟩, ⟨c, hc, hco⟩, rfl⟩ := h
    cases c with
    | both i j =>
      simp only [mergeOne] at hco
      split at hco
      · rename_i a b ha hb
        simp only [Option.some.injEq, Prod.mk.injEq] at hco
        obtain ⟨rfl, _⟩ := hco
        exact Or.inl (List.mem_map.mpr ⟨a, List.mem_of_getElem? ha, rfl⟩)
      · simp at hco
    | left i =>
      simp only [mergeOne, Option.map_eq_some_iff] at hco
      obtain ⟨a, ha, he⟩ := hco
      simp only [Prod.mk.injEq] at he
      obtain ⟨rfl, _⟩ := he
      exact Or.inl (List.mem_map.mpr ⟨a, List.mem_of_getElem? ha, rfl⟩)
    | right j =>
      simp only [mergeOne, Option.map_eq_some_iff] at hco
      obtain ⟨b, hb, he⟩ := hco
      simp only [Prod.mk.injEq] at he
      obtain ⟨rfl, _⟩ := he
      exact Or.inr ⟨j, b, hb, rfl, hc⟩
  · rintro (h | ⟨j, b, hb, rfl, hm⟩)
    · obtain ⟨a, ha, rfl⟩ := List.mem_map.mp h
      obtain ⟨i, hi, hia⟩ := List.mem_iff_getElem.mp ha
      have hsrc : (false, i) ∈ m.flatMap srcs :=
        hv.mem_iff.mpr (mem_allSources.mpr (Or.inl ⟨rfl, hi⟩))
      obtain ⟨x, hx, hs⟩ := List.mem_flatMap.mp hsrc
      have hget : l[i]? = some a := by rw [List.getElem?_eq_getElem hi, hia]
      cases x with
      | both i' j =>
        simp only [srcs, List.mem_cons, Prod.mk.injEq, Bool.false_eq_true, false_and, or_false,
          List.not_mem_nil, true_and] at hs
        subst hs
        have hj : j < r.length := by
          rcases hv.bound hx (s := (true, j)) (by simp [srcs]) with h | h
          · exact absurd h.1 (by simp)
          · exact h.2
        have hm : mergeOne l r (.both i j) =
            some (⟨a.ptr, mergeRefs a.refs r[j].refs⟩, [(false, i), (true, j)]) := by
          simp [mergeOne, hget, List.getElem?_eq_getElem hj]
        have h' := out _ hx _ _ hm
        exact h'
      | left i' =>
        simp only [srcs, List.mem_cons, Prod.mk.injEq, true_and, List.not_mem_nil, or_false] at hs
        subst hs
        have hm : mergeOne l r (.left i) = some (a, [(false, i)]) := by simp [mergeOne, hget]
        exact out _ hx _ _ hm
      | right j => simp [srcs] at hs
    · have hmo : mergeOne l r (.right j) = some (b, [(true, j)]) := by simp [mergeOne, hb]
      exact out _ hm _ _ hmo

/-- **indi_pointer_lost_iff.**  For a valid matching and arbitrary pointers: a pointer that names
    an individual of an input names no individual of the output exactly when it is merged away. -/
theorem indi_pointer_lost_iff {m : List M} {l r : List Rcd} (hv : ValidMatching m l.length r.length)
    (p : Nat) (hin : p ∈ l.map (·.ptr) ∨ p ∈ r.map (·.ptr)) :
    p ∉ (mergeIndis m l r).map (·.ptr) ↔ mergedAway m l r p = true := by
  rw [mergedAway_iff, out_ptr_iff hv]
  constructor
  · intro h
    have hl : p ∉ l.map (·.ptr) := fun hp => h (Or.inl hp)
    refine ⟨hl, hin.resolve_left hl, ?_⟩
    intro j b hb hp
    obtain ⟨hj, _⟩ := List.getElem?_eq_some_iff.mp hb
    rcases right_covered hv hj with hr | hpair
    · exact absurd (Or.inr ⟨j, b, hb, hp, hr⟩) h
    · exact hpair
  · rintro ⟨hl, _, hall⟩ (h | ⟨j, b, hb, hp, hr⟩)
    · exact hl h
    · obtain ⟨i, hi⟩ := hall j b hb hp
      exact pair_excludes_right hv hi hr

/-- **fam_refs_always_resolve.**  FAMS / FAMC lines of the output individuals resolve whenever
    they did in the inputs — for any matching and any pointers: no family pointer is ever lost. -/
theorem fam_refs_always_resolve (m : List M) (l r : G) (hl : resolves l) (hr : resolves r) :
    ∀ i ∈ (mergeG m l r).indis, ∀ x ∈ i.refs, x.2 ∈ famPtrs (mergeG m l r) := by
  intro i hi x hx
  simp only [mergeG] at hi
  simp only [famPtrs, mergeG]
  apply fam_ptrs_kept
  rcases indi_refs_from_inputs hi hx with ⟨a, ha, hxa⟩ | ⟨b, hb, hxb⟩
  · exact Or.inl (hl.2 a ha x hxa)
  · exact Or.inr (hr.2 b hb x hxb)

/-- **references_resolve_iff.**  Valid matching, arbitrary pointers, inputs whose references
    resolve.  A HUSB / WIFE / CHIL line of a merged family names no individual of the output
    **iff** its target is merged away; and such a line is a line of a family of the *right*
    document (left families never dangle).  With `fam_refs_always_resolve` this is the complete
    list of the references that do not resolve: exactly the ones the finding describes. -/
theorem references_resolve_iff (m : List M) (l r : G)
    (hv : ValidMatching m l.indis.length r.indis.length) (hl : resolves l) (hr : resolves r) :
    ∀ f ∈ (mergeG m l r).fams, ∀ x ∈ f.refs,
      (x.2 ∉ indiPtrs (mergeG m l r) ↔ mergedAway m l.indis r.indis x.2 = true) ∧
      (x.2 ∉ indiPtrs (mergeG m l r) → ∃ g ∈ r.fams, x ∈ g.refs) := by
  intro f hf x hx
  simp only [mergeG] at hf
  have hin : x.2 ∈ l.indis.map (·.ptr) ∨ x.2 ∈ r.indis.map (·.ptr) := by
    rcases fam_refs_from_inputs hf hx with ⟨a, ha, hxa⟩ | ⟨b, hb, hxb⟩
    · exact Or.inl (hl.1 a ha x hxa)
    · exact Or.inr (hr.1 b hb x hxb)
  have hiff := indi_pointer_lost_iff hv x.2 hin
  refine ⟨by simpa only [indiPtrs, mergeG] using hiff, ?_⟩
  intro hd
  have hd' : x.2 ∉ (mergeIndis m l.indis r.indis).map (·.ptr) := by simpa only [indiPtrs, mergeG] using hd
  have haway := mergedAway_iff.mp (hiff.mp hd')
  rcases fam_refs_from_inputs hf hx with ⟨a, ha, hxa⟩ | ⟨b, hb, hxb⟩
  · exact absurd (hl.1 a ha x hxa) haway.1
  · exact ⟨b, hb, hxb⟩

/-- **resolves_iff_none_merged_away.**  The merged document resolves iff no HUSB / WIFE / CHIL
    line of a merged family targets a merged-away pointer (`danglingRefs`, the list the driver
    prints, is empty). -/
theorem resolves_iff_none_merged_away (m : List M) (l r : G)
    (hv : ValidMatching m l.indis.length r.indis.length) (hl : resolves l) (hr : resolves r) :
    resolves (mergeG m l r) ↔ danglingRefs m l r = [] := by
  have key := references_resolve_iff m l r hv hl hr
  constructor
  · intro h
    simp only [danglingRefs, List.flatMap_eq_nil_iff, List.map_eq_nil_iff, List.filter_eq_nil_iff]
    intro f hf x hx haway
    exact ((key f hf x hx).1.mpr haway) (h.1 f hf x hx)
  · intro h
    simp only [danglingRefs, List.flatMap_eq_nil_iff, List.map_eq_nil_iff, List.filter_eq_nil_iff] at h
    refine ⟨?_, fam_refs_always_resolve m l r hl hr⟩
    intro f hf x hx
    exact Classical.byContradiction fun hd => h f hf x hx ((key f hf x hx).1.mp hd)

/-- the old guard is a special case: with the same pointer on both sides of every pair nothing
    is merged away (so `references_resolve_partial` follows from `resolves_iff_none_merged_away`) -/
theorem same_pointers_none_merged_away (m : List M) (l r : List Rcd)
    (hv : ValidMatching m l.length r.length) (hp : SamePointers m l r)
    (p : Nat) : mergedAway m l r p = false := by
  cases h : mergedAway m l r p with
  | false => rfl
  | true =>
    obtain ⟨h1, h2, h3⟩ := mergedAway_iff.mp h
    obtain ⟨b, hb, rfl⟩ := List.mem_map.mp h2
    obtain ⟨j, hj, hjb⟩ := List.mem_iff_getElem.mp hb
    have hget : r[j]? = some b := by rw [List.getElem?_eq_getElem hj, hjb]
    obtain ⟨i, hi⟩ := h3 j b hget rfl
    have hil : i < l.length := by
      rcases hv.bound hi (s := (false, i)) (by simp [srcs]) with h | h
      · exact h.2
      · exact absurd h.1 (by simp)
    have hli : l[i]? = some l[i] := List.getElem?_eq_getElem hil
    have := hp i j hi _ b hli hget
    exact absurd (List.mem_map.mpr ⟨l[i], List.getElem_mem hil, this⟩) h1

/-! Non-vacuity and the witness of `dangling_counterexample` through the new characterisation -/
example : danglingRefs witnessM witnessL witnessR = [(10, (0, 3)), (10, (2, 4))] := by decide
example : danglingRefs copyM witnessL copyR = [] := by decide
/-- renumbered copy where one person is *not* matched: `@4@` is carried over, only `@3@` dangles -/
example : danglingRefs [.both 0 0, .left 1, .right 1] witnessL witnessR = [(10, (0, 3))] := by decide

end Gedcom.C10
