/-
  C10 — the decisions of the document merge are the source's.
  `Gedcom.Generated.srcMergeCases` / `srcMergeDocsProg` (Generated/MergeSrc.lean) are the go/ast
  translation of the `switch` of `IndividualNodes.Merge` and of the statements of
  `MergeDocumentsAndIndividuals` (harness/extract_mergesrc.go).  Here:
  (1) everything translated lies inside the fragment (`merge_source_in_fragment`, by `decide`);
  (2) interpreting it is the hand-written model: one step of `MergeD.mergeIndis`
      (`merge_step_is_the_source`), the whole of `MergeD.mergeDocs` with the order of its output
      (`merge_docs_is_the_source`), and the constructors of `MergeG.M` (`mergeOne_follows_source`).
-/
import Gedcom.Model.MergeDocs
import Gedcom.Model.MergeGraph
import Gedcom.Generated.MergeSrc
namespace Gedcom.C10
open Gedcom Gedcom.Match Gedcom.MergeD Gedcom.MergeSrc

/-- **merge_source_in_fragment** (obligation): the translator recognised every statement of the
    two functions, every case condition and every case body. -/
theorem merge_source_in_fragment :
    Generated.srcMergeShape = true ∧
    Generated.srcMergeCases.all (fun c => c.cond.ok && c.act != .bad) = true ∧
    Generated.srcMergeDocsProg.shape = true ∧
    (Generated.srcMergeDocsProg.mergeRecv.ok && Generated.srcMergeDocsProg.mergeArg.ok &&
     Generated.srcMergeDocsProg.sliceLeft.ok && Generated.srcMergeDocsProg.sliceRight.ok) = true ∧
    Generated.srcMergeDocsProg.output.all (· != .bad) = true := by decide

/-! ### the switch of `IndividualNodes.Merge` -/

/-- what the source does with a comparison: the first case of the switch that applies -/
def srcAction (c : Res) : Option Action := choose Generated.srcMergeCases c.1.isSome c.2.isSome

/-- one iteration of the loop, given what the switch chose (the bodies of the three kinds of case
    as the model has them; an `Action` applied to a comparison it cannot apply to does nothing) -/
def stepBy (L R : List INode) (rest : List Res) (st : MSt) : Option Action → Res → IndisOutcome
  | some .mergeNodes, (some a, some b) =>
    match byId L a, byId R b with
    | some l, some r =>
      match mergeNodes codeFlags l r st with
      | .ok m st' => (mergeIndis L R rest st').cons (some a, some b) m
      | .error => .error
      | .panic => .panic
      | .outOfFuel => .outOfFuel
    | _, _ => mergeIndis L R rest st
  | some .keepLeft, (some a, x) =>
    match byId L a with
    | some l => (mergeIndis L R rest st).cons (some a, x) l
    | none => mergeIndis L R rest st
  | some .keepRight, (x, some b) =>
    match byId R b with
    | some r => (mergeIndis L R rest st).cons (x, some b) r
    | none => mergeIndis L R rest st
  | _, _ => mergeIndis L R rest st

/-- the decision in the record-level model: its three constructors are the three cases -/
theorem mergeOne_follows_source :
    choose Generated.srcMergeCases true true = some .mergeNodes ∧      -- `MergeG.M.both`
    choose Generated.srcMergeCases true false = some .keepLeft ∧       -- `MergeG.M.left`
    choose Generated.srcMergeCases false true = some .keepRight ∧      -- `MergeG.M.right`
    choose Generated.srcMergeCases false false = none := by decide

/-- **merge_step_is_the_source**: for every comparison, what the model's loop does is what the
    translated switch chooses — both present: `MergeNodes` (errors propagate); only left / only
    right: kept as is; neither: no case runs — in the source's case order. -/
theorem merge_step_is_the_source (L R : List INode) (c : Res) (rest : List Res) (st : MSt) :
    mergeIndis L R (c :: rest) st = stepBy L R rest st (srcAction c) c := by
  obtain ⟨h1, h2, h3, h4⟩ := mergeOne_follows_source
  obtain ⟨a, b⟩ := c
  cases a <;> cases b <;> simp only [srcAction, Option.isSome_some, Option.isSome_none, h1, h2, h3, h4] <;>
    simp only [stepBy, mergeIndis] <;> rfl

/-! ### `MergeDocumentsAndIndividuals` -/

def pick (p : Part) (Ld Rd : List INode) : List INode :=
  let d := match p.side with | .left => Ld | .right => Rd | .bad => []
  match p.sel with
  | .individuals => indisOf d
  | .nonIndividuals => othersOf d
  | .bad => []

/-- the translated function, interpreted: the nodes of the output document in order -/
def srcMergeDocs (p : Prog) (res : List Res) (Ld Rd : List INode) (st : MSt) : Option (List Node) :=
  match mergeIndis (pick p.mergeRecv Ld Rd) (pick p.mergeArg Ld Rd) res st with
  | .ok out st' =>
    let lo := pick p.sliceLeft Ld Rd
    let ro := pick p.sliceRight Ld Rd
    match mergeNodeSlicesO codeFlags (eqMergeF codeFlags (mergeFuel lo ro)) lo ro st' with
    | .ok es _ =>
      some (p.output.flatMap fun
        | .mergedIndividuals => eraseList (out.map (·.2))
        | .mergedOther => eraseList (es.map (·.node))
        | .bad => [])
    | _ => none
  | _ => none

/-- **merge_docs_is_the_source**: the model of `MergeDocumentsAndIndividuals` — individuals of
    the left merged with individuals of the right, non-individuals of the left with non-individuals
    of the right, merged individuals first and the other records after them — is the translated
    source, for all inputs. -/
theorem merge_docs_is_the_source (res : List Res) (Ld Rd : List INode) (st : MSt) :
    (mergeDocs res Ld Rd st).nodes = srcMergeDocs Generated.srcMergeDocsProg res Ld Rd st := by
  simp only [mergeDocs, srcMergeDocs, Generated.srcMergeDocsProg, pick]
  cases mergeIndis (indisOf Ld) (indisOf Rd) res st with
  | ok out st' =>
    simp only
    cases mergeNodeSlicesO codeFlags (eqMergeF codeFlags (mergeFuel (othersOf Ld) (othersOf Rd)))
      (othersOf Ld) (othersOf Rd) st' with
    | ok es s => simp [DocOutcome.nodes]
    | panic => rfl
    | outOfFuel => rfl
  | error => rfl
  | panic => rfl
  | outOfFuel => rfl

end Gedcom.C10
