/-
  C17 — Published sites reveal nothing about living people when told not to.

  Per-component non-interference, for *all* people and all private strings: a component rendered
  for a living person under `hide` / `placeholder` is the same fragment whatever the person's
  private strings (names, rendered event dates, page key, list cells, surname, places) are
  (`*_hidden_independent`); no page is generated and no row is listed for them
  (`no_page_for_living`, `no_row_for_living`); every link to them is inert (`link_is_inert`,
  `button_is_inert`); people who are not living are rendered exactly as in show mode
  (`dead_fully_published`).  The lists that are computed from all people at once (pages, list
  rows, surname index, surname list, place list, index letters) are independent of the living
  people's data in hide mode (`site_hide_independent`) — at the regenerated facts about the code
  that used to ignore the visibility (`generated_flags_safe`); `surname_leak_counterexample` and
  `place_leak_counterexample` show the leak in the same model with the facts of the unrepaired tree.

  Labelled partial (DESIGN §8 C17): the components are proved; which component each page uses
  where is tied by execution (marker search and hide-mode byte comparison of whole sites).
-/
import Gedcom.Model.Living
namespace Gedcom.C17
open Gedcom Gedcom.Living

/-- the same person with other private strings -/
def withPriv (p : Person) (q : Priv) : Person := { p with priv := q }

/-- `ps'` differs from `ps` only in the private strings of living people -/
inductive SameButLiving : List Person → List Person → Prop
  | nil : SameButLiving [] []
  | dead (p : Person) {ps ps'} : p.pub.living = false → SameButLiving ps ps' → SameButLiving (p :: ps) (p :: ps')
  | living (p : Person) (q : Priv) {ps ps'} : p.pub.living = true → SameButLiving ps ps' →
      SameButLiving (p :: ps) (withPriv p q :: ps')

/-- The facts regenerated from the source are those of the repaired code (the surname list, the
    place list and the hide-mode index letters respect the visibility). -/
theorem generated_flags_safe : generatedFlags.Safe := by decide

/-! ## the living test -/

/-- A recorded death always makes a person not living; without one, a person with no usable birth
    date is living, and otherwise exactly those at most `maxAge` years old are. -/
theorem isLiving_spec (hasDeath : Bool) (birthMicro now maxAge : Nat) :
    isLiving hasDeath birthMicro now maxAge = true ↔
      hasDeath = false ∧ (maxAge = 0 ∨ birthMicro = 0 ∨ now * 1000000 ≤ maxAge * 1000000 + birthMicro) := by
  unfold isLiving
  cases hasDeath <;> simp [or_assoc]

/-- Living status is monotone in the birth date: born later ⇒ still living. -/
theorem isLiving_mono (b b' now maxAge : Nat) (h : b ≤ b') (hb : b ≠ 0)
    (hl : isLiving false b now maxAge = true) : isLiving false b' now maxAge = true := by
  rw [isLiving_spec] at *
  obtain ⟨_, hl⟩ := hl
  refine ⟨rfl, ?_⟩
  rcases hl with h0 | h0 | h0
  · exact Or.inl h0
  · exact absurd h0 hb
  · right; right; omega

/-! ## components: non-interference for living people -/

/-- `IndividualName` -/
theorem name_hidden_independent (p : Person) (q : Priv) (v : Vis) (hl : p.pub.living = true) (hv : v ≠ .show) :
    individualName (some (withPriv p q)) v = individualName (some p) v := by
  cases v <;> simp_all [individualName, withPriv]

/-- `IndividualDates` -/
theorem dates_hidden_independent (p : Person) (q : Priv) (v : Vis) (hl : p.pub.living = true) (hv : v ≠ .show) :
    individualDates (some (withPriv p q)) v = individualDates (some p) v := by
  cases v <;> simp_all [individualDates, withPriv]

/-- `PageIndividual`: the link target of a living person is "#" -/
theorem link_is_inert (p : Person) (v : Vis) (hl : p.pub.living = true) (hv : v ≠ .show) :
    pageIndividual (some p) v = hashHref := by
  cases v <;> simp_all [pageIndividual, hidden]

/-- `IndividualLink` -/
theorem link_hidden_independent (p : Person) (q : Priv) (v : Vis) (hl : p.pub.living = true) (hv : v ≠ .show) :
    individualLink (some (withPriv p q)) v = individualLink (some p) v := by
  cases v <;> simp_all [individualLink, individualName, pageIndividual, hidden, withPriv]

/-- every link that is rendered for a living person points to "#" -/
theorem link_href_inert (p : Person) (v : Vis) (href : Str) (body : List Frag) (hl : p.pub.living = true)
    (hv : v ≠ .show) (h : individualLink (some p) v = .link href body) : href = hashHref := by
  cases v <;> simp_all [individualLink, pageIndividual, hidden]

/-- `IndividualButton` -/
theorem button_hidden_independent (p : Person) (q : Priv) (v : Vis) (hl : p.pub.living = true) (hv : v ≠ .show) :
    individualButton (some (withPriv p q)) v = individualButton (some p) v := by
  cases v <;> simp_all [individualButton, individualDates, withPriv]

/-- the button of a living person has no click target -/
theorem button_is_inert (p : Person) (v : Vis) (s : Sex) (oc : Option Str) (n d : Frag) (hl : p.pub.living = true)
    (hv : v ≠ .show) (h : individualButton (some p) v = .button s oc n d) : oc = none := by
  cases v <;> simp_all [individualButton]

/-- `PlaceEvent` in hide mode … -/
theorem placeEvent_hide_independent (p : Person) (q : Priv) (date date' : Str) (descr descr' : String)
    (hl : p.pub.living = true) :
    placeEvent (some (withPriv p q)) date' descr' .hide = placeEvent (some p) date descr .hide := by
  simp_all [placeEvent, withPriv]

/-- … and in placeholder mode: the row keeps the event's date and type but nothing of the person. -/
theorem placeEvent_placeholder_independent (p : Person) (q : Priv) (date : Str) (descr : String)
    (hl : p.pub.living = true) :
    placeEvent (some (withPriv p q)) date descr .placeholder = placeEvent (some p) date descr .placeholder := by
  simp_all [placeEvent, withPriv]

/-- The full statement "a place-page row of a living person does not depend on their event
    dates" is false in placeholder mode: the date column is written (the property asks placeholder
    mode to withhold pages, links and names, which `placeEvent_placeholder_independent` gives). -/
theorem placeEvent_placeholder_date_counterexample :
    (placeEvent (some ⟨⟨true, .unknown⟩, default⟩) [49] "Birth" .placeholder).texts ≠
    (placeEvent (some ⟨⟨true, .unknown⟩, default⟩) [50] "Birth" .placeholder).texts := by
  decide

/-- What is written for a living person when they are not shown contains no string from the file at
    all, except the inert link target "#". -/
theorem hidden_writes_no_private_text (p : Person) (v : Vis) (hl : p.pub.living = true) (hv : v ≠ .show) :
    (individualName (some p) v).texts = [] ∧ (individualDates (some p) v).texts = [] ∧
    (individualButton (some p) v).texts = [] ∧
    ((individualLink (some p) v).texts = [] ∨ (individualLink (some p) v).texts = [hashHref]) := by
  cases v <;>
    simp_all [individualName, individualDates, individualButton, individualLink, pageIndividual, hidden,
      Frag.texts, Frag.textsL]

/-! ## lists: no page, no row, and independence of the living people's data -/

/-- no page is generated for a living person: the generated pages are those of the others -/
theorem no_page_for_living (ps : List Person) (v : Vis) (hv : v ≠ .show) :
    individualPages ps v = (ps.filter (fun p => !p.pub.living)).map (fun p => p.priv.page) := by
  unfold individualPages
  congr 1
  apply List.filter_congr
  intro p _
  cases v <;> simp_all [hidden]

/-- no row is listed for a living person -/
theorem no_row_for_living (ps : List Person) (v : Vis) (hv : v ≠ .show) :
    listRows ps v = (ps.filter (fun p => !p.pub.living)).map (fun p => listRow p v) := by
  unfold listRows
  congr 1
  apply List.filter_congr
  intro p _
  cases v <;> simp_all [hidden]

theorem filter_dead_same {ps ps' : List Person} (h : SameButLiving ps ps') :
    ps'.filter (fun p => !p.pub.living) = ps.filter (fun p => !p.pub.living) := by
  induction h with
  | nil => rfl
  | dead p hd _ ih => simp [hd, ih]
  | living p q hl _ ih => simp [hl, ih, withPriv]

/-- the generated pages do not depend on the living people's data -/
theorem pages_hidden_independent {ps ps' : List Person} (h : SameButLiving ps ps') (v : Vis) (hv : v ≠ .show) :
    individualPages ps' v = individualPages ps v := by
  rw [no_page_for_living ps' v hv, no_page_for_living ps v hv, filter_dead_same h]

/-- the list rows do not depend on the living people's data -/
theorem rows_hidden_independent {ps ps' : List Person} (h : SameButLiving ps ps') (v : Vis) (hv : v ≠ .show) :
    listRows ps' v = listRows ps v := by
  rw [no_row_for_living ps' v hv, no_row_for_living ps v hv, filter_dead_same h]

/-- the surname pills of a list page do not depend on the living people's data -/
theorem surnameIndex_hidden_independent {ps ps' : List Person} (h : SameButLiving ps ps') (v : Vis) (hv : v ≠ .show)
    (sel : Person → Bool) : surnameIndex ps' v sel = surnameIndex ps v sel := by
  have e : ∀ l : List Person, l.filter (fun p => !hidden p v) = l.filter (fun p => !p.pub.living) := by
    intro l
    apply List.filter_congr
    intro p _
    cases v <;> simp_all [hidden]
  unfold surnameIndex
  rw [e ps', e ps, filter_dead_same h]

/-- the number of people hidden on a placeholder list page depends on how many are living, not on
    who they are -/
theorem hiddenCount_hidden_independent {ps ps' : List Person} (h : SameButLiving ps ps') (v : Vis) :
    hiddenCount ps' v = hiddenCount ps v := by
  have e : (ps'.filter (fun p => hidden p v)).length = (ps.filter (fun p => hidden p v)).length := by
    induction h with
    | nil => rfl
    | dead p hd _ ih =>
      simp only [List.filter_cons]
      split <;> simp [ih]
    | living p q hl _ ih =>
      have hq : hidden (withPriv p q) v = hidden p v := rfl
      simp only [List.filter_cons, hq]
      split <;> simp [ih]
  unfold hiddenCount
  rw [e]

/-- children buttons on a person's page (`partnerSection`) -/
theorem partnerChildren_hidden_independent {cs cs' : List Person} (h : SameButLiving cs cs') (v : Vis)
    (hv : v ≠ .show) : partnerChildren cs' v = partnerChildren cs v := by
  induction h with
  | nil => rfl
  | dead p hd _ ih => simp_all [partnerChildren]
  | living p q hl _ ih =>
    have hb := button_hidden_independent p q v hl hv
    cases v <;> simp_all [partnerChildren, withPriv]

/-! ## the visibility-blind code, at the regenerated facts -/

theorem surnameList_hidden_independent {ps ps' : List Person} (h : SameButLiving ps ps') (v : Vis) (hv : v ≠ .show) :
    surnameList generatedFlags ps' v = surnameList generatedFlags ps v := by
  have hs : generatedFlags.surnamesRespectVisibility = true := by decide
  have e : ∀ l : List Person, l.filter (fun p => !(generatedFlags.surnamesRespectVisibility && hidden p v)) =
      l.filter (fun p => !p.pub.living) := by
    intro l
    apply List.filter_congr
    intro p _
    cases v <;> simp_all [hidden]
  unfold surnameList
  rw [e ps', e ps, filter_dead_same h]

theorem surnameCount_hidden_independent {ps ps' : List Person} (h : SameButLiving ps ps') (v : Vis) (hv : v ≠ .show)
    (s : Str) : surnameCount generatedFlags ps' v s = surnameCount generatedFlags ps v s := by
  have hs : generatedFlags.surnamesRespectVisibility = true := by decide
  have e : ∀ l : List Person, l.filter (fun p => !(generatedFlags.surnamesRespectVisibility && hidden p v)) =
      l.filter (fun p => !p.pub.living) := by
    intro l
    apply List.filter_congr
    intro p _
    cases v <;> simp_all [hidden]
  unfold surnameCount
  rw [e ps', e ps, filter_dead_same h]

theorem placeList_hide_independent {ps ps' : List Person} (h : SameButLiving ps ps') :
    placeList generatedFlags ps' .hide = placeList generatedFlags ps .hide := by
  have hs : generatedFlags.placesRespectHide = true := by decide
  have e : ∀ l : List Person, l.filter (fun p => !(generatedFlags.placesRespectHide && p.pub.living && Vis.hide == Vis.hide)) =
      l.filter (fun p => !p.pub.living) := by
    intro l
    apply List.filter_congr
    intro p _
    simp [hs]
  unfold placeList
  rw [e ps', e ps, filter_dead_same h]

theorem letters_hide_independent {ps ps' : List Person} (h : SameButLiving ps ps') :
    lettersFrom generatedFlags ps' .hide = lettersFrom generatedFlags ps .hide := by
  have hs : generatedFlags.hideLettersFromDead = true := by decide
  simp only [lettersFrom, hs, ↓reduceIte]
  exact filter_dead_same h

/-- In hide mode everything the site computes from the people — which pages exist, the list rows,
    the surname pills, the surname list, the place list, the people that contribute index
    letters — is the same whatever the living people's names, dates and places are. -/
theorem site_hide_independent {ps ps' : List Person} (h : SameButLiving ps ps') :
    site generatedFlags ps' .hide = site generatedFlags ps .hide := by
  unfold site
  rw [pages_hidden_independent h .hide (by decide), rows_hidden_independent h .hide (by decide),
    surnameIndex_hidden_independent h .hide (by decide), surnameList_hidden_independent h .hide (by decide),
    placeList_hide_independent h, letters_hide_independent h]

/-- With the facts of the unrepaired tree the same model leaks: a living person's surname is on the
    surname list in hide mode … -/
theorem surname_leak_counterexample :
    surnameList unrepairedFlags [⟨⟨true, .unknown⟩, { (default : Priv) with surname := [76] }⟩] .hide = [[76]] := by
  decide

/-- … and their birth place gets a place page. -/
theorem place_leak_counterexample :
    placeList unrepairedFlags [⟨⟨true, .unknown⟩, { (default : Priv) with places := [[80]] }⟩] .hide = [[80]] := by
  decide

/-! ## people who are not living remain fully published in every mode -/

/-- every component renders a person who is not living exactly as in show mode -/
theorem dead_fully_published (p : Person) (v : Vis) (hd : p.pub.living = false) (date : Str) (descr : String) :
    individualName (some p) v = individualName (some p) .show ∧
    individualDates (some p) v = individualDates (some p) .show ∧
    pageIndividual (some p) v = p.priv.page ∧
    individualLink (some p) v = individualLink (some p) .show ∧
    individualButton (some p) v = individualButton (some p) .show ∧
    listRow p v = listRow p .show ∧
    placeEvent (some p) date descr v = placeEvent (some p) date descr .show := by
  simp [individualName, individualDates, pageIndividual, individualLink, individualButton, listRow, placeEvent,
    hidden, hd]

/-- … they get their page and their list row, keep their surname on the surname list, their places
    on the place list, and (with the repaired index letters) their index letter, in every mode -/
theorem dead_listed_everywhere (ps : List Person) (p : Person) (v : Vis) (hp : p ∈ ps) (hd : p.pub.living = false) :
    p.priv.page ∈ individualPages ps v ∧ listRow p v ∈ listRows ps v ∧
    (p.priv.surname ≠ [] → p.priv.surname ∈ surnameList generatedFlags ps v) ∧
    (∀ pl ∈ p.priv.places, pl ∈ placeList generatedFlags ps v) ∧
    p ∈ lettersFrom generatedFlags ps v := by
  have hh : hidden p v = false := by simp [hidden, hd]
  refine ⟨?_, ?_, ?_, ?_, ?_⟩
  · exact List.mem_map.mpr ⟨p, List.mem_filter.mpr ⟨hp, by simp [hh]⟩, rfl⟩
  · exact List.mem_map.mpr ⟨p, List.mem_filter.mpr ⟨hp, by simp [hh]⟩, rfl⟩
  · intro hne
    unfold surnameList
    apply List.mem_eraseDups.mpr
    apply List.mem_filter.mpr
    refine ⟨List.mem_map.mpr ⟨p, List.mem_filter.mpr ⟨hp, by simp [hh]⟩, rfl⟩, ?_⟩
    cases hs : p.priv.surname with
    | nil => exact absurd hs hne
    | cons a l => simp
  · intro pl hpl
    unfold placeList
    apply List.mem_eraseDups.mpr
    apply List.mem_flatMap.mpr
    exact ⟨p, List.mem_filter.mpr ⟨hp, by simp [hd]⟩, hpl⟩
  · have hs : generatedFlags.hideLettersFromDead = true := by decide
    cases v <;> simp [lettersFrom, hs, hp, hd]

/-! ## non-vacuity -/

def liv : Person := ⟨⟨true, .female⟩, ⟨[[76, 105, 118]], [98, 46], [108, 105, 118], [[49]], [73, 110, 103], [[80]]⟩⟩
def ded : Person := ⟨⟨false, .male⟩, ⟨[[79, 108, 100]], [100, 46], [111, 108, 100], [[50]], [84, 105, 109], [[81]]⟩⟩

example : SameButLiving [liv, ded] [withPriv liv default, ded] :=
  .living liv default rfl (.dead ded rfl .nil)
example : individualPages [liv, ded] .hide = [[111, 108, 100]] := by decide
example : individualPages [liv, ded] .show = [[108, 105, 118], [111, 108, 100]] := by decide
example : (individualLink (some liv) .placeholder).texts = [[35]] := by decide
example : (individualLink (some liv) .show).texts = [[108, 105, 118], [76, 105, 118]] := by decide
example : surnameList generatedFlags [liv, ded] .placeholder = [[84, 105, 109]] := by decide
example : isLiving false 1990000000 2026 100 = true ∧ isLiving false 1900000000 2026 100 = false ∧
    isLiving true 1990000000 2026 100 = false ∧ isLiving false 0 2026 100 = true ∧
    isLiving false 1926000000 2026 100 = true := by decide

end Gedcom.C17
