/-
  C05 — Date bounds and the Years scale agree with the calendar.
  Property theorems only.  Years are exact fractions here (`Date.yearsLt` compares by
  cross-multiplication); float64 rounding is outside the model and is checked exhaustively
  on the Go side by the harness (a check, not a theorem).  No upper bound on the year.
-/
import Gedcom.Lemmas.Calendar
import Gedcom.Generated.DateSrc
namespace Gedcom.C05
open Gedcom

/-- a full, calendar-valid date -/
def Full (d : Date) : Prop :=
  1 ≤ d.month ∧ d.month ≤ 12 ∧ 1 ≤ d.day ∧ (d.day : Int) ≤ dim (isLeap d.year) d.month

/-- the leap-year rule of the model is the Gregorian one -/
theorem leap_rule (y : Int) : isLeap y = true ↔ (4 ∣ y ∧ (¬ 100 ∣ y ∨ 400 ∣ y)) := by
  rw [isLeap_iff]; omega

/-- consecutive civil days have consecutive day numbers: inside a month by definition, … -/
theorem day_succ (y : Int) (m : Nat) (d : Int) : dayNumber y m (d + 1) = dayNumber y m d + 1 := by
  unfold dayNumber; omega
/-- … from the last day of a month to the first of the next (leap Februaries included), … -/
theorem month_succ (y : Int) (m : Nat) (hm : 1 ≤ m) (hm' : m < 12) :
    dayNumber y (m+1) 1 = dayNumber y m (dim (isLeap y) m) + 1 := month_roll y m hm hm'
/-- … and from 31 December to 1 January (century and 400-year rules included). -/
theorem year_succ (y : Int) : dayNumber (y+1) 1 1 = dayNumber y 12 31 + 1 := year_roll y

/-- the period denoted by a valid date starts no later than it ends -/
theorem start_le_end (d : Date) (h : d.WF) : d.startInstant ≤ d.endInstant := by
  have key : d.firstDay ≤ d.lastDay := by
    unfold Date.firstDay Date.lastDay
    obtain ⟨_, h2⟩ := h
    rcases h2 with ⟨hm, _⟩ | ⟨hm1, hm2, hd⟩
    · simp only [hm, if_true]; unfold dayNumber; cases isLeap (d.year : Int) <;> simp [cum] <;> omega
    · have hm0 : ¬ d.month = 0 := by omega
      simp only [hm0, if_false]
      split
      · have := dim_pos (isLeap d.year) hm1 hm2; unfold dayNumber; omega
      · omega
  unfold Date.startInstant Date.endInstant nsPerDay
  omega

/-- the number of days from first to last day is the calendar's length of the period:
    1, the month's length (29 for a leap February) or the year's length (366 in leap years) -/
theorem period_days (d : Date) (h : d.WF) : d.lastDay - d.firstDay + 1 = d.periodDays := by
  unfold Date.firstDay Date.lastDay Date.periodDays
  obtain ⟨_, h2⟩ := h
  rcases h2 with ⟨hm, _⟩ | ⟨hm1, hm2, hd⟩
  · simp only [hm, if_true]; unfold dayNumber daysInYear; cases isLeap (d.year : Int) <;> simp [cum] <;> omega
  · have hm0 : ¬ d.month = 0 := by omega
    simp only [hm0, if_false]
    split
    · unfold dayNumber; omega
    · omega

/-- start bound = 00:00:00.000000000 of the first day, end bound = last nanosecond of the
    last day: together exactly `periodDays` whole days -/
theorem period_length (d : Date) (h : d.WF) :
    d.endInstant - d.startInstant + 1 = d.periodDays * nsPerDay := by
  have := period_days d h
  unfold Date.startInstant Date.endInstant
  rw [← this]
  simp only [nsPerDay]
  omega

theorem full_firstDay (d : Date) (h : Full d) : d.firstDay = dayNumber d.year d.month d.day := by
  unfold Date.firstDay
  obtain ⟨h1, _, h3, _⟩ := h
  have : ¬ d.month = 0 := by omega
  have : ¬ d.day = 0 := by omega
  simp [*]

/-- the fractional-year value is strictly increasing in calendar order, for every pair of
    full dates (in particular from each day to the next) -/
theorem years_strict_mono (a b : Date) (ha : Full a) (hb : Full b)
    (h : a.firstDay < b.firstDay) : a.yearsLt b := by
  rw [full_firstDay a ha, full_firstDay b hb] at h
  obtain ⟨a1, a2, a3, a4⟩ := ha
  obtain ⟨b1, b2, b3, b4⟩ := hb
  have hya := yearDay_bounds a.year a.month a.day a1 a2 (by omega) a4
  have hyb := yearDay_bounds b.year b.month b.day b1 b2 (by omega) b4
  have am0 : ¬ a.month = 0 := by omega
  have ad0 : ¬ a.day = 0 := by omega
  have bm0 : ¬ b.month = 0 := by omega
  have bd0 : ¬ b.day = 0 := by omega
  unfold dayNumber at h
  unfold yearDay at hya hyb
  unfold Date.yearsLt Date.yearsDen Date.yearsNum yearDay
  simp only [am0, ad0, bm0, bd0, if_false]
  have hs := daysBeforeYear_succ a.year
  have hsb := daysBeforeYear_succ b.year
  by_cases hy : (a.year : Int) = b.year
  · rw [hy] at h hya ⊢
    rcases daysInYear_cases (b.year : Int) with e | e <;> rw [e] at hya hyb ⊢ <;> omega
  · by_cases hlt : (a.year : Int) < b.year
    · rcases daysInYear_cases (a.year : Int) with e | e <;>
      rcases daysInYear_cases (b.year : Int) with e' | e' <;>
      rw [e] at hya ⊢ <;> rw [e'] at hyb ⊢ <;> omega
    · have hm := daysBeforeYear_mono (y1 := (b.year : Int) + 1) (y2 := a.year) (by omega)
      omega

/-- `IsBefore` / `IsAfter` on full dates agree with calendar order -/
theorem isBefore_iff (a b : Date) (ha : Full a) (hb : Full b) :
    a.isBefore b = true ↔ a.firstDay < b.firstDay := by
  unfold Date.isBefore
  simp only [decide_eq_true_eq]
  constructor
  · intro hlt
    by_cases hc : a.firstDay < b.firstDay
    · exact hc
    · exfalso
      by_cases he : a.firstDay = b.firstDay
      · -- equal day numbers of full dates: equal years and year days, so not yearsLt
        rw [full_firstDay a ha, full_firstDay b hb] at he
        obtain ⟨a1, a2, a3, a4⟩ := ha
        obtain ⟨b1, b2, b3, b4⟩ := hb
        have hya := yearDay_bounds a.year a.month a.day a1 a2 (by omega) a4
        have hyb := yearDay_bounds b.year b.month b.day b1 b2 (by omega) b4
        have am0 : ¬ a.month = 0 := by omega
        have ad0 : ¬ a.day = 0 := by omega
        have bm0 : ¬ b.month = 0 := by omega
        have bd0 : ¬ b.day = 0 := by omega
        unfold dayNumber at he
        unfold yearDay at hya hyb
        unfold Date.yearsLt Date.yearsDen Date.yearsNum yearDay at hlt
        simp only [am0, ad0, bm0, bd0, if_false] at hlt
        have hs := daysBeforeYear_succ a.year
        have hsb := daysBeforeYear_succ b.year
        by_cases hy : (a.year : Int) = b.year
        · rw [hy] at he hya hlt
          rcases daysInYear_cases (b.year : Int) with e | e <;> rw [e] at hya hyb hlt <;> omega
        · by_cases hlt' : (a.year : Int) < b.year
          · have hm := daysBeforeYear_mono (y1 := (a.year : Int) + 1) (y2 := b.year) (by omega)
            omega
          · have hm := daysBeforeYear_mono (y1 := (b.year : Int) + 1) (y2 := a.year) (by omega)
            omega
      · have hgt : b.firstDay < a.firstDay := by omega
        have := years_strict_mono b a hb ha hgt
        unfold Date.yearsLt at this hlt
        omega
  · exact years_strict_mono a b ha hb

theorem isAfter_iff (a b : Date) (ha : Full a) (hb : Full b) :
    a.isAfter b = true ↔ b.firstDay < a.firstDay := by
  unfold Date.isAfter
  have := isBefore_iff b a hb ha
  unfold Date.isBefore at this
  exact this

/-- a month-year date lies inside its month on the Years scale -/
theorem years_inside_month (y m : Nat) (h1 : 1 ≤ m) (h2 : m ≤ 12) :
    let p : Date := ⟨0, m, y⟩
    let f : Date := ⟨1, m, y⟩
    let l : Date := ⟨(dim (isLeap y) m).toNat, m, y⟩
    f.yearsLe p ∧ p.yearsLe l := by
  have hd := dim_pos (isLeap y) h1 h2
  have m0 : ¬ m = 0 := by omega
  have l0 : ¬ (dim (isLeap (y : Int)) m).toNat = 0 := by omega
  have hl : ((dim (isLeap (y : Int)) m).toNat : Int) = dim (isLeap (y : Int)) m := by omega
  simp only [Date.yearsLe, Date.yearsDen, Date.yearsNum, yearDay, m0, l0, if_false, if_true, hl]
  rcases daysInYear_cases (y : Int) with e | e <;> rw [e] <;> constructor <;> simp <;> omega

/-- a year-only date lies inside its year on the Years scale -/
theorem years_inside_year (y : Nat) :
    let p : Date := ⟨0, 0, y⟩
    let f : Date := ⟨1, 1, y⟩
    let l : Date := ⟨31, 12, y⟩
    f.yearsLe p ∧ p.yearsLe l := by
  have hl := year_last (y : Int)
  unfold yearDay at hl
  simp only [Date.yearsLe, Date.yearsDen, Date.yearsNum, yearDay, if_true]
  simp only [show ¬ (1 : Nat) = 0 by omega, show ¬ (12 : Nat) = 0 by omega,
    show ¬ (31 : Nat) = 0 by omega, if_false]
  rcases daysInYear_cases (y : Int) with e | e <;> rw [e] at hl ⊢ <;> constructor <;> simp [cum] <;> omega

/-- `DateNodes.Minimum()` returns a date of the list that no date of the list is below on the
    Years scale (and `none` only for the empty list) -/
theorem minimum_is_min (ds : List Date) (k : Nat) (h : minimumIdx ds = some k) :
    ∃ x, ds[k]? = some x ∧ ∀ d ∈ ds, ¬ d.yearsLt x := by
  unfold minimumIdx at h
  cases hg : minimumIdx.go ds 0 none with
  | none => rw [hg] at h; simp at h
  | some r =>
    rw [hg] at h
    simp only [Option.map_some, Option.some.injEq] at h
    obtain ⟨k', x⟩ := r
    simp only at h; subst h
    have := minimum_go_spec [] ds none k' x rfl (by simpa using hg)
    exact ⟨x, by simpa using this.1, by simpa using this.2⟩

/-- `DateNodes.Maximum()` returns a date of the list that is below no date of the list -/
theorem maximum_is_max (ds : List Date) (k : Nat) (h : maximumIdx ds = some k) :
    ∃ x, ds[k]? = some x ∧ ∀ d ∈ ds, ¬ x.yearsLt d := by
  unfold maximumIdx at h
  cases hg : maximumIdx.go ds 0 none with
  | none => rw [hg] at h; simp at h
  | some r =>
    rw [hg] at h
    simp only [Option.map_some, Option.some.injEq] at h
    obtain ⟨k', x⟩ := r
    simp only at h; subst h
    have := maximum_go_spec [] ds none k' x rfl (by simpa using hg)
    exact ⟨x, by simpa using this.1, by simpa using this.2⟩

/-- the Years order is a strict order (what sorting and min/max rely on) -/
theorem years_order_strict (a b c : Date) :
    ¬ a.yearsLt a ∧ (a.yearsLt b → b.yearsLt c → a.yearsLt c) :=
  ⟨yearsLt_irrefl a, fun h1 h2 => yearsLt_trans h1 h2⟩

/-! Non-vacuity (tests on literals, not the property): a leap February, a century year. -/
example : (⟨0, 2, 2000⟩ : Date).WF ∧ (⟨0, 2, 2000⟩ : Date).periodDays = 29 := by decide
example : (⟨0, 2, 1900⟩ : Date).WF ∧ (⟨0, 2, 1900⟩ : Date).periodDays = 28 := by decide
example : Full ⟨29, 2, 2000⟩ ∧ Full ⟨1, 3, 2000⟩ ∧
    (⟨29, 2, 2000⟩ : Date).firstDay < (⟨1, 3, 2000⟩ : Date).firstDay := by
  unfold Full; decide

/-- **Obligation on the regenerated source shape of the date arithmetic.** `Date.IsBefore` and
    `Date.IsAfter` are the strict comparisons of the two `Years()` values (what `isBefore_iff` /
    `isAfter_iff` model), `Date.Years` distinguishes exactly the cases day+month+year /
    month+year / year in that order, and `Date.Time` builds its instant from the same three cases
    and moves an end-of-range date to the last nanosecond of its day / month / year. -/
theorem date_source_shape :
    Generated.statementsOfIsBefore =
      ["leftYears := date.Years()", "rightYears := date2.Years()", "return leftYears < rightYears"] ∧
    Generated.statementsOfIsAfter =
      ["leftYears := date.Years()", "rightYears := date2.Years()", "return leftYears > rightYears"] ∧
    Generated.conditionsOfYears =
      ["if hasDay && hasMonth && hasYear => return", "if hasMonth && hasYear => return",
       "if hasYear => return"] ∧
    Generated.conditionsOfTime =
      ["case date.Day != 0 && date.Month != 0 && date.Year != 0",
       "case date.Month != 0 && date.Year != 0", "case date.Year != 0", "default",
       "if date.IsEndOfRange && ok", "case date.Day != 0", "case date.Month != 0",
       "case date.Year != 0"] := by decide

end Gedcom.C05
