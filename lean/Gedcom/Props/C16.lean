/-
  C16 — query results equal what the Go API gives.

  Theorems about the evaluator the driver runs (`Gedcom.Q.evalExpr`, `evalPipe`, `evalVar`,
  `applyOpStr` in Model/Query.lean), for all documents, inputs, programs and variable
  environments.  The function and operator tables are the regenerated ones
  (`Generated.Query.functions`, `opTruthNumeric`, `opTruthText`, `nanIsNumeric`): the facts about
  them are closed by `decide`, so a changed table breaks the proof.
-/
import Gedcom.Model.Query
import Gedcom.Lemmas.Query
import Gedcom.Generated.QuerySrc
namespace Gedcom.C16
open Gedcom Gedcom.Q

/-! ### the regenerated function table maps the documented names to their implementations -/

theorem fnOf_First : fnOf (ascii "First") = .first := by decide
theorem fnOf_Last : fnOf (ascii "Last") = .last := by decide
theorem fnOf_Length : fnOf (ascii "Length") = .length := by decide
theorem fnOf_Only : fnOf (ascii "Only") = .only := by decide
theorem fnOf_Combine : fnOf (ascii "Combine") = .combine := by decide
theorem fnOf_NodesWithTagPath : fnOf (ascii "NodesWithTagPath") = .tagPath := by decide

/-! ### helper lemmas -/

theorem bind_ok {α β} (a : α) (f : α → Outcome β) : (Outcome.ok a >>= f) = f a := rfl

theorem firstN_nat (vs : List Val) (n : Nat) : firstN vs n = .ok (vs.take n) := by
  unfold firstN
  by_cases h : (n : Int) ≥ (vs.length : Int)
  · have h' : vs.length ≤ n := by omega
    simp [h, List.take_of_length_le h']
  · simp [h]

theorem firstN_neg (vs : List Val) (n : Int) (h : n < 0) : firstN vs n = .panic .sliceBounds := by
  unfold firstN
  have : ¬ n ≥ (vs.length : Int) := by omega
  simp [this, h]

theorem lastN_nat (vs : List Val) (n : Nat) : lastN vs n = .ok (vs.drop (vs.length - n)) := by
  unfold lastN
  by_cases h0 : n = 0
  · subst h0; simp
  · have : ¬ ((n : Int) == 0) = true := by simp; omega
    simp only [this]
    by_cases h : (vs.length : Int) - n < 0
    · have h' : vs.length - n = 0 := by omega
      simp [h, h']
    · have h1 : ¬ ((vs.length : Int) - n > vs.length) := by omega
      have h2 : ((vs.length : Int) - (n : Int)).toNat = vs.length - n := by omega
      simp [h, h1, h2]

theorem lastN_neg (vs : List Val) (n : Int) (h : n < 0) : lastN vs n = .panic .sliceBounds := by
  unfold lastN
  have h0 : ¬ ((n == 0) = true) := by simp; omega
  have h1 : ¬ ((vs.length : Int) - n < 0) := by omega
  have h2 : (vs.length : Int) - n > vs.length := by omega
  simp [h0, h1, h2]

/-! ### accessors map over lists, in order -/

/-- `accessor_maps`.  An accessor applied to a list is applied to every element, in order, and
    the results form a new list whose element type is the accessor's result type: whenever the
    accessor has a result type on the element type (`returnType`) and succeeds on every element
    with a non-nil result `g x`, the result on the list is the list of the `g x`. -/
theorem accessor_maps (now : Nat) (docs : List Forest) (q : Str) (nm : String) (elem rt : Ty) (isNil : Bool)
    (vs : List Val) (g : Val → Val)
    (hrt : returnType elem (q.drop 1) = .ok rt)
    (hel : ∀ x ∈ vs, accessSingle now docs (q.drop 1) x = .ok (g x) ∧ g x ≠ .nil) :
    evalAccessor now docs q (.slice nm elem isNil vs) = .ok (.slice "" rt false (vs.map g)) := by
  unfold evalAccessor
  simp only [hrt, Outcome.ok_bind]
  have : ∀ (l : List Val), (∀ x ∈ l, accessSingle now docs (q.drop 1) x = .ok (g x) ∧ g x ≠ .nil) →
      mapO (accessElem now docs (q.drop 1)) l = .ok (l.map g) := by
    intro l
    induction l with
    | nil => intro _; rfl
    | cons a l ih =>
      intro h
      have ha := h a (by simp)
      have hl := ih (fun x hx => h x (by simp [hx]))
      have hg : accessElem now docs (q.drop 1) a = Outcome.ok (g a) := by
        unfold accessElem
        rw [ha.1]
        cases hga : g a <;> simp_all
      rw [mapO, hg, hl]
      rfl
  rw [this vs hel]
  rfl

/-- an element on which the accessor fails makes the whole list fail with that error: no
    partial results -/
theorem accessor_error_propagates (now : Nat) (docs : List Forest) (q : Str) (nm : String) (elem rt : Ty) (isNil : Bool)
    (x : Val) (vs : List Val) (k : ErrKind)
    (hrt : returnType elem (q.drop 1) = .ok rt) (hx : accessSingle now docs (q.drop 1) x = .error k) :
    evalAccessor now docs q (.slice nm elem isNil (x :: vs)) = .error k := by
  unfold evalAccessor
  simp only [hrt, Outcome.ok_bind, mapO, accessElem, hx, Outcome.error_bind]

/-! ### First / Last / Length -/

/-- `first_is_take`.  `First(n)` of a non-nil list is its prefix of length `min n len` (all of
    it when `n` exceeds the length), of the same list type. -/
theorem first_is_take (env : Env) (lk : Lookup) (f : Str) (a : Stmt) (nm : String) (e : Ty) (vs : List Val)
    (r : Val) (s : Str) (n : Nat) (hf : fnOf f = .first)
    (ha : evalStmt env lk a (.slice nm e false vs) = .ok r) (hs : fmtV r = some s) (hn : Q.atoi s = some (n : Int)) :
    evalExpr env lk (.call f [a]) (.slice nm e false vs) = .ok (.slice nm e false (vs.take n)) := by
  rw [evalExpr, hf]
  simp [firstLast, wrapSlice, ha, hs, hn, firstN_nat]

/-- `last_is_suffix`.  `Last(n)` of a non-nil list is its suffix of length `min n len`. -/
theorem last_is_suffix (env : Env) (lk : Lookup) (f : Str) (a : Stmt) (nm : String) (e : Ty) (vs : List Val)
    (r : Val) (s : Str) (n : Nat) (hf : fnOf f = .last)
    (ha : evalStmt env lk a (.slice nm e false vs) = .ok r) (hs : fmtV r = some s) (hn : Q.atoi s = some (n : Int)) :
    evalExpr env lk (.call f [a]) (.slice nm e false vs) = .ok (.slice nm e false (vs.drop (vs.length - n))) := by
  rw [evalExpr, hf]
  simp [firstLast, wrapSlice, ha, hs, hn, lastN_nat]

theorem take_length_min (vs : List Val) (n : Nat) : (vs.take n).length = min n vs.length := by simp

theorem suffix_length_min (vs : List Val) (n : Nat) : (vs.drop (vs.length - n)).length = min n vs.length := by
  simp; omega

/-- a negative count is not clamped: Go's `Value.Slice` panics (which `Engine.Evaluate` reports
    as an error once it recovers) -/
theorem first_negative_panics (env : Env) (lk : Lookup) (f : Str) (a : Stmt) (nm : String) (e : Ty) (vs : List Val)
    (r : Val) (s : Str) (n : Int) (hf : fnOf f = .first ∨ fnOf f = .last) (hneg : n < 0)
    (ha : evalStmt env lk a (.slice nm e false vs) = .ok r) (hs : fmtV r = some s) (hn : Q.atoi s = some n) :
    evalExpr env lk (.call f [a]) (.slice nm e false vs) = .panic .sliceBounds := by
  rcases hf with hf | hf <;> rw [evalExpr, hf] <;>
    simp [firstLast, wrapSlice, ha, hs, hn, firstN_neg _ _ hneg, lastN_neg _ _ hneg]

/-- `length_spec`.  `Length` is the number of elements of a list and 1 for anything else;
    arguments are ignored. -/
theorem length_spec (env : Env) (lk : Lookup) (f : Str) (args : List Stmt) (v : Val) (hf : fnOf f = .length) :
    evalExpr env lk (.call f args) v =
      .ok (.int (match v with | .slice _ _ _ vs => (vs.length : Int) | _ => 1)) := by
  unfold evalExpr
  rw [hf]
  cases v <;> rfl

/-! ### Only -/

theorem filterO_pure (vs : List Val) (c : Val → Outcome Val) (p : Val → Bool)
    (h : ∀ x ∈ vs, c x = .ok (.bool (p x))) :
    filterO (fun x => do let r ← c x; keepIf r) vs = Outcome.ok (vs.filter p) := by
  induction vs with
  | nil => rfl
  | cons a l ih =>
    have ha := h a (by simp)
    have hl := ih (fun x hx => h x (by simp [hx]))
    rw [filterO, ha, hl]
    cases hp : p a <;> simp [List.filter, hp, keepIf]

/-- `only_is_filter`.  `Only(c)` keeps exactly the elements on which the condition evaluates to
    true, in their original order; the result is an (unnamed) list of the same element type. -/
theorem only_is_filter (env : Env) (lk : Lookup) (f : Str) (c : Stmt) (nm : String) (e : Ty) (isNil : Bool)
    (vs : List Val) (p : Val → Bool) (hf : fnOf f = .only) (he : e ≠ .opaque "interface {}")
    (hc : ∀ x ∈ vs, evalStmt env lk c x = .ok (.bool (p x))) :
    evalExpr env lk (.call f [c]) (.slice nm e isNil vs) = .ok (.slice "" e false (vs.filter p)) := by
  have := filterO_pure vs (fun x => evalStmt env lk c x) p hc
  unfold evalExpr
  rw [hf]
  simp only [onlyWith, this, Outcome.ok_bind, Outcome.pure_eq]

/-- a condition whose result is not a bool selects nothing -/
theorem only_nonbool_drops (r : Val) (h : ∀ b, r ≠ .bool b) (h' : r ≠ .someBool) : keepIf r = .ok false := by
  cases r <;> simp_all [keepIf]

/-- `only_partition`.  `Only(p)` and `Only(not p)` split a list without loss, duplication or
    reordering: both are sublists and their lengths add up. -/
theorem only_partition (vs : List Val) (p : Val → Bool) :
    (vs.filter p).length + (vs.filter (fun x => !p x)).length = vs.length ∧
    (vs.filter p).Sublist vs ∧ (vs.filter (fun x => !p x)).Sublist vs := by
  refine ⟨?_, List.filter_sublist, List.filter_sublist⟩
  induction vs with
  | nil => rfl
  | cons a l ih => cases h : p a <;> simp [List.filter, h] <;> omega

/-! ### Combine -/

theorem evalCombine_two (env : Env) (lk : Lookup) (e : Ty) (b : Stmt) (v : Val) (acc : List Val)
    (nm : String) (isNil : Bool) (ws : List Val) (hb : evalStmt env lk b v = .ok (.slice nm e isNil ws)) :
    evalCombine env lk e [b] v acc = .ok (acc ++ ws) := by
  simp [evalCombine, hb]

/-- `combine_is_append`.  `Combine(a, b)` of two lists with the same element type is the first
    followed by the second, with the list type of the first. -/
theorem combine_is_append (env : Env) (lk : Lookup) (f : Str) (a b : Stmt) (v : Val)
    (nm nm' : String) (e : Ty) (n1 n2 : Bool) (xs ys : List Val) (hf : fnOf f = .combine)
    (ha : evalStmt env lk a v = .ok (.slice nm e n1 xs)) (hb : evalStmt env lk b v = .ok (.slice nm' e n2 ys)) :
    evalExpr env lk (.call f [a, b]) v = .ok (.slice nm e false (xs ++ ys)) := by
  unfold evalExpr
  rw [hf]
  simp [ha, evalCombine_two env lk e b v xs nm' n2 ys hb]

/-- `Combine(E, E) | Length = 2 · (E | Length)` -/
theorem combine_self_length (xs : List Val) : (xs ++ xs).length = 2 * xs.length := by simp; omega

/-- lists of different element types cannot be combined: `reflect.AppendSlice` panics -/
theorem combine_mismatch_panics (env : Env) (lk : Lookup) (f : Str) (a b : Stmt) (v : Val)
    (nm nm' : String) (e e' : Ty) (n1 n2 : Bool) (xs ys : List Val) (hf : fnOf f = .combine) (hne : e' ≠ e)
    (ha : evalStmt env lk a v = .ok (.slice nm e n1 xs)) (hb : evalStmt env lk b v = .ok (.slice nm' e' n2 ys)) :
    evalExpr env lk (.call f [a, b]) v = .panic .appendSlice := by
  unfold evalExpr
  rw [hf]
  simp [ha, evalCombine, hb, hne]

/-! ### NodesWithTagPath -/

/-- `tagpath_spec`.  The nodes at a tag path below `n`: `n` itself for the empty path, otherwise
    the nodes at the rest of the path below every child (in order) carrying the first tag. -/
theorem tagpath_spec (n : Node) (t : Str) (ts : List Str) :
    tagPath [] n = [n] ∧
    tagPath (t :: ts) n = (n.kids.filter (fun k => k.tag == t)).flatMap (tagPath ts) := ⟨rfl, rfl⟩

/-! ### the pipe is composition -/

/-- `pipe_is_compose`.  Evaluating `e₁ | … | eₖ | f₁ | … | fₘ` is evaluating `e₁ | … | eₖ` and
    feeding the result to `f₁ | … | fₘ`; a failure of the first part is the failure of the whole. -/
theorem pipe_is_compose (env : Env) (lk : Lookup) (es fs : List Expr) (v : Val) :
    evalPipe env lk (es ++ fs) v = (evalPipe env lk es v >>= evalPipe env lk fs) := by
  induction es generalizing v with
  | nil => rfl
  | cons e es ih =>
    simp only [List.cons_append, evalPipe]
    cases h : evalExpr env lk e v <;> simp [ih]

theorem pipe_single (env : Env) (lk : Lookup) (e : Expr) (v : Val) :
    evalPipe env lk [e] v = evalExpr env lk e v := by
  simp only [evalPipe]
  cases evalExpr env lk e v <;> rfl

/-! ### variables -/

/-- `variable_inline`.  A variable evaluates exactly as the pipeline it names, on the current
    input (not on the document): wherever `x` stands, the body of the first statement named `x`
    may stand instead. -/
theorem variable_inline (env : Env) (guard : Bool) (fuel : Nat) (active : List Str) (x : Str) (s : Stmt) (v : Val)
    (hl : lookupVar env.docs.length env.eng x = some (.stmt s)) (hg : (guard && active.contains x) = false) :
    evalExpr env (evalVar env guard (fuel + 1) active) (.var x) v =
      evalPipe env (evalVar env guard fuel (x :: active)) s.body v := by
  rw [evalExpr, evalVar]
  simp only [hl, hg]
  cases s
  rfl

/-- the document variables are bound first: `DocumentN` is the N-th document whatever the query
    defines -/
theorem document_variable (env : Env) (guard : Bool) (fuel : Nat) (active : List Str) (x : Str) (i : Nat) (v : Val)
    (hl : lookupVar env.docs.length env.eng x = some (.document i)) :
    evalExpr env (evalVar env guard (fuel + 1) active) (.var x) v = .ok (.doc i) := by
  rw [evalExpr, evalVar]
  simp only [hl]

/-! ### objects -/

/-- `object_fields`.  On a single (non-list) item an object evaluates every field on that item;
    the result maps each key to its field's value. -/
theorem object_fields (env : Env) (lk : Lookup) (fs : List (Str × Stmt)) (v : Val) (hv : v.isSlice = false) :
    evalExpr env lk (.obj fs) v = (evalFields env lk fs v >>= fun kvs => pure (.map kvs)) := by
  rw [evalExpr]
  cases v <;> simp_all [mapDeep, Val.isSlice]

theorem object_field_values (env : Env) (lk : Lookup) (k : Str) (s : Stmt) (rest : List (Str × Stmt)) (v r : Val)
    (rs : List (Str × Val)) (hs : evalStmt env lk s v = .ok r) (hr : evalFields env lk rest v = .ok rs) :
    evalFields env lk ((k, s) :: rest) v = .ok ((k, r) :: rs) := by
  simp [evalFields, hs, hr]

/-! ### comparison operators -/

/-- `neq_is_not_eq`.  On every pair of operand strings `!=` is the negation of `=`. -/
theorem neq_is_not_eq (nan : Bool) (l r : Str) :
    applyOpStr nan "!=" l r = (applyOpStr nan "=" l r).map (!·) := by
  unfold applyOpStr
  cases compareOperands nan l r with
  | numeric o => cases o <;> decide
  | text o => cases o <;> decide
  | unordered => decide
  | undetermined => rfl

/-- all six operators agree with one three-way comparison, numerically and textually: `>=` is
    `> or =`, `<=` is `< or =` (regenerated truth tables) -/
theorem ge_le_spec (nan : Bool) (l r : Str) (hnn : compareOperands nan l r ≠ .unordered) :
    applyOpStr nan ">=" l r = (do let g ← applyOpStr nan ">" l r; let e ← applyOpStr nan "=" l r; pure (g || e)) ∧
    applyOpStr nan "<=" l r = (do let g ← applyOpStr nan "<" l r; let e ← applyOpStr nan "=" l r; pure (g || e)) := by
  unfold applyOpStr
  cases h : compareOperands nan l r with
  | numeric o => cases o <;> decide
  | text o => cases o <;> decide
  | unordered => exact absurd h hnn
  | undetermined => exact ⟨rfl, rfl⟩

def b2n (b : Bool) : Nat := if b then 1 else 0

/-- `trichotomy`.  Whenever the comparison is decided by the model and no NaN is compared as a
    number, exactly one of `<`, `=`, `>` holds. -/
theorem trichotomy_of_ordered (nan : Bool) (l r : Str) (lt eq gt : Bool)
    (hnn : compareOperands nan l r ≠ .unordered)
    (h1 : applyOpStr nan "<" l r = some lt) (h2 : applyOpStr nan "=" l r = some eq)
    (h3 : applyOpStr nan ">" l r = some gt) :
    b2n lt + b2n eq + b2n gt = 1 := by
  unfold applyOpStr at h1 h2 h3
  cases h : compareOperands nan l r with
  | numeric o => rw [h] at h1 h2 h3; cases o <;> simp_all [opTruth, Generated.Query.opTruthNumeric, List.find?] <;> (subst_vars; rfl)
  | text o => rw [h] at h1 h2 h3; cases o <;> simp_all [opTruth, Generated.Query.opTruthText, List.find?] <;> (subst_vars; rfl)
  | unordered => exact absurd h hnn
  | undetermined => rw [h] at h1; simp at h1

/-- with the regenerated flag (`NaN` spellings are text, not numbers) no comparison is unordered -/
theorem never_unordered (l r : Str) : compareOperands Generated.Query.nanIsNumeric l r ≠ .unordered := by
  have hflag : Generated.Query.nanIsNumeric = false := by decide
  rw [hflag]
  unfold compareOperands
  cases hl : parseNum l with
  | none => simp [isNumericNum]; split <;> simp
  | some a =>
    cases hr : parseNum r with
    | none => simp [isNumericNum]; split <;> simp
    | some b =>
      cases a <;> cases b <;> simp [isNumericNum] <;> split <;> simp_all

/-- `trichotomy` for the evaluator of the current tree: exactly one of `<`, `=`, `>`. -/
theorem trichotomy (l r : Str) (lt eq gt : Bool)
    (h1 : applyOpStr Generated.Query.nanIsNumeric "<" l r = some lt)
    (h2 : applyOpStr Generated.Query.nanIsNumeric "=" l r = some eq)
    (h3 : applyOpStr Generated.Query.nanIsNumeric ">" l r = some gt) :
    b2n lt + b2n eq + b2n gt = 1 :=
  trichotomy_of_ordered _ l r lt eq gt (never_unordered l r) h1 h2 h3

/-- the full statement is false of code that treats NaN as a number (the tree before the repair):
    with `nanIsNumeric = true`, `"Nan"` is neither `<`, `=` nor `>` than itself -/
theorem nan_counterexample :
    applyOpStr true "<" (ascii "Nan") (ascii "Nan") = some false ∧
    applyOpStr true "=" (ascii "Nan") (ascii "Nan") = some false ∧
    applyOpStr true ">" (ascii "Nan") (ascii "Nan") = some false := by decide

/-- …and after the repair a person called Nan is found by her name -/
theorem nan_repaired : applyOpStr false "=" (ascii "Nan") (ascii "nan ") = some true := by decide

/-- `numeric_else_text`.  Two operands are compared as numbers exactly when both are accepted
    by (the model of) `strconv.ParseFloat` — a NaN spelling only if the code counts it as a
    number — and otherwise as lower-cased, trimmed text in byte order (for ASCII operands; the
    model does not determine `strings.ToLower` beyond ASCII and answers `undetermined` there). -/
theorem numeric_else_text (nan : Bool) (l r : Str) :
    (isNumericNum nan (parseNum l) = true ∧ isNumericNum nan (parseNum r) = true →
        ∀ o, compareOperands nan l r ≠ .text o) ∧
    (¬ (isNumericNum nan (parseNum l) = true ∧ isNumericNum nan (parseNum r) = true) →
      isAsciiStr l = true → isAsciiStr r = true →
        compareOperands nan l r = .text (cmpStr (Gedcom.trimSpace (toLowerAscii l)) (Gedcom.trimSpace (toLowerAscii r)))) := by
  unfold compareOperands
  constructor
  · intro ⟨h1, h2⟩ o
    simp only [h1, h2, Bool.and_self, if_true]
    split <;> simp
  · intro h ha hb
    have : (isNumericNum nan (parseNum l) && isNumericNum nan (parseNum r)) = false := by
      cases h1 : isNumericNum nan (parseNum l) <;> cases h2 : isNumericNum nan (parseNum r) <;> simp_all
    simp [this, ha, hb]

/-- the text order is a total three-way comparison: equal exactly on equal strings and
    antisymmetric -/
theorem cmpStr_eq_iff (a b : Str) : cmpStr a b = .eq ↔ a = b := by
  induction a generalizing b with
  | nil => cases b <;> simp [cmpStr]
  | cons x xs ih =>
    cases b with
    | nil => simp [cmpStr]
    | cons y ys =>
      simp only [cmpStr]
      by_cases h1 : x < y
      · simp [h1]; intro h; subst h; exact absurd h1 (by simp)
      · by_cases h2 : x > y
        · simp [h1, h2]; intro h; subst h; exact absurd h2 (by simp)
        · have : x = y := by
            have a1 : ¬ x.toNat < y.toNat := by simpa [UInt8.lt_iff_toNat_lt] using h1
            have a2 : ¬ y.toNat < x.toNat := by simpa [UInt8.lt_iff_toNat_lt] using h2
            exact UInt8.toNat_inj.mp (by omega)
          subst this
          simp [h1, ih]

/-! ### the relation / event accessors (shared models of Resolve.lean, DateParse.lean) -/

/-- a person with a death event is not living, whatever the year -/
theorem living_no_death (now : Nat) (n : Node) (h : (kidsWithTag n "DEAT").isEmpty = false) :
    individualIsLiving now n = false := by
  simp [individualIsLiving, h]

/-- without a death event and without any birth / baptism date a person counts as living -/
theorem living_unknown_birth (now : Nat) (n : Node) (hd : (kidsWithTag n "DEAT").isEmpty = true)
    (hb : estimatedBirthDate n = none) : individualIsLiving now n = true := by
  simp [individualIsLiving, hd, birthYears, hb, livingTest]

theorem livingTest_antitone (now later maxAge : Nat) (by_ : Int × Nat) (hle : now ≤ later)
    (h : livingTest later maxAge by_ = true) : livingTest now maxAge by_ = true := by
  unfold livingTest at h ⊢
  simp only [Bool.or_eq_true, decide_eq_true_eq] at h ⊢
  rcases h with h | h
  · exact Or.inl h
  · refine Or.inr ?_
    have h1 : (now : Int) ≤ (later : Int) := by exact_mod_cast hle
    have h2 : (0 : Int) ≤ (by_.2 : Int) := Int.natCast_nonneg _
    have := Int.mul_le_mul_of_nonneg_right h1 h2
    omega

/-- the living test is antitone in the current year: who is not living now is not living in
    any later year -/
theorem living_antitone (now later : Nat) (n : Node) (hle : now ≤ later)
    (h : individualIsLiving later n = true) : individualIsLiving now n = true := by
  unfold individualIsLiving at h ⊢
  split
  · rename_i hd; simp [hd] at h
  · rename_i hd
    simp only [hd] at h
    split
    · rfl
    · rename_i hm
      simp only [hm] at h
      exact livingTest_antitone now later _ _ hle h

/-- `Spouses`, `Families`, `Parents` and the `Individual` of a HUSB/WIFE/CHIL node are the
    reference-resolution functions of the C14 model; a panic there is the recovered error -/
theorem spouses_is_resolve (now : Nat) (docs : List Forest) (d : Nat) (n : Node) :
    callMenu now docs "IndividualNode" "Spouses" (.node d n) =
      some (ofRes (Resolve.spouses resFlags (docs.getD d []) ⟨0, n⟩)
        (fun l => .slice "IndividualNodes" (.ptr "IndividualNode") false (l.map (entVal d "IndividualNode")))) := by
  rfl

/-! ### round 4: the remaining expression kinds, and the reflection rules of the accessor -/

/-- a constant evaluates to its text, whatever the input -/
theorem const_is_value (env : Env) (lk : Lookup) (s : Str) (v : Val) : evalExpr env lk (.const s) v = .ok (.str s) := by
  rw [evalExpr]

/-- `?` (as an expression and as the function `?`) looks at the *type* of the input only -/
theorem question_is_type_listing (env : Env) (lk : Lookup) (v : Val) :
    evalExpr env lk .question v = questionOf env.varNames v := by
  rw [evalExpr]

/-- for a value of a receiver type in the reflection tables the listing is: the accessors of the
    (pointer) type, the functions and the variable names, sorted bytewise -/
theorem question_lists (vars : List Str) (r : String) (ms : List (String × Nat × Nat × Ty))
    (h : Generated.Query.methods.find? (·.1 == r) = some (r, ms)) :
    questionList (some r) vars =
      .ok (.slice "" .str false ((sortStrs (ms.map (fun m => ascii ("." ++ m.1)) ++
        Generated.Query.functions.map (fun f => ascii f.1) ++ vars)).map .str)) := by
  simp [questionList, h]

/-- `?` on a list is `?` on the element type (for pointer, struct and scalar element types) -/
theorem question_of_list (vars : List Str) (nm : String) (k : String) :
    questionTy vars (.slice nm (.ptr k)) = questionTy vars (.ptr k) ∧
    questionTy vars (.slice nm .date) = questionTy vars .date ∧
    questionTy vars (.slice nm .str) = questionTy vars .str := by
  refine ⟨?_, ?_, ?_⟩ <;> simp [questionTy]

/-- a comparison on a list is the comparison on every element, in order (a `[]bool`) -/
theorem binary_maps_over_list (env : Env) (lk : Lookup) (l r : Expr) (op : String) (nm : String) (e : Ty) (isNil : Bool)
    (vs : List Val) :
    evalExpr env lk (.bin l op r) (.slice nm e isNil vs) =
      (mapDeepList .bool (binaryOn op (evalExpr env lk l) (evalExpr env lk r)) vs >>= fun rs => pure (.slice "" .bool false rs)) := by
  rw [evalExpr, mapDeep]

/-- on a single item it is the operator applied to the two operands evaluated on that item -/
theorem binary_on_item (env : Env) (lk : Lookup) (l r : Expr) (op : String) (v a b : Val) (hv : v.isSlice = false)
    (hl : evalExpr env lk l v = .ok a) (hr : evalExpr env lk r v = .ok b) :
    evalExpr env lk (.bin l op r) v = .ok (applyOp op a b) := by
  rw [evalExpr, mapDeep_nonslice _ _ _ hv]
  simp [binaryOn, hl, hr, bind, Outcome.bind, pure]

/-- MergeDocumentsAndIndividuals: an argument that is not a document is an error -/
theorem merge_requires_documents (a b : Unit → Outcome Val) (x : Val) (ha : a () = .ok x)
    (hx : ∀ i, x ≠ .doc i) : mergeWith a b = .error .notDocument := by
  unfold mergeWith
  rw [ha]
  cases x <;> first | rfl | (exact absurd rfl (hx _))

/-- methods with arguments are not callable from a query: reflection's `Call` with no arguments
    panics, which `evaluateAccessor` recovers into an error — for every receiver type in the tables -/
theorem method_with_arguments_is_error (now : Nat) (docs : List Forest) (acc : Str) (v : Val) (t : Ty) (recv : String)
    (nin nout : Nat) (out : Ty) (ht : v.ty = some t) (hr : recvOfTy t = some recv) (hk : knownRecv recv = true)
    (hm : methodInfo recv acc = some (nin + 1, nout, out)) :
    accessSingle now docs acc v = .error .methodPanicked := by
  unfold accessSingle
  simp [ht, hr, hk, hm]

/-- a method wins over a struct field of the same name: when reflection finds a niladic method the
    field table is not consulted -/
theorem method_before_field (now : Nat) (docs : List Forest) (acc : Str) (v : Val) (t : Ty) (recv : String)
    (nout : Nat) (out : Ty) (r : MenuResult) (ht : v.ty = some t) (hr : recvOfTy t = some recv) (hk : knownRecv recv = true)
    (hm : methodInfo recv acc = some (0, nout + 1, out))
    (hc : callMenu now docs recv (strOfAscii? acc) v = some r) :
    accessSingle now docs acc v = r.toOutcome := by
  unfold accessSingle
  simp [ht, hr, hk, hm, hc]

/-- struct fields: an unexported field is an error (`field.Interface()` panics, recovered), a field
    of a nil pointer is "no such accessor" (`FieldByName` on the zero Value panics inside getField) -/
theorem unexported_field_is_error (now : Nat) (docs : List Forest) (acc : Str) (v : Val) (t : Ty) (recv : String) (fi : Bool × Ty)
    (ht : v.ty = some t) (hr : recvOfTy t = some recv) (hk : knownRecv recv = true) (hm : methodInfo recv acc = none)
    (hf : fieldInfo recv acc = some fi) (hn : v.isNilPtr = false) (he : isExportedName acc = false) :
    accessSingle now docs acc v = .error .methodPanicked := by
  unfold accessSingle
  simp [ht, hr, hk, hm, hf, hn, he]

theorem nil_pointer_field_is_no_accessor (now : Nat) (docs : List Forest) (acc : Str) (k : String) (fi : Bool × Ty)
    (hk : knownRecv k = true) (hm : methodInfo k acc = none) (hf : fieldInfo k acc = some fi) :
    accessSingle now docs acc (.nilNode k) = .error .noSuchAccessor := by
  unfold accessSingle
  simp [Val.ty, recvOfTy, hk, hm, hf, Val.isNilPtr]

/-- over a list a field gives a list of the field's (regenerated) type only if `FieldByName`
    succeeds on the zero struct; a field promoted through an embedded pointer does not: the
    reflection panic `nilType` (recovered by Engine.Evaluate) -/
theorem promoted_field_over_list_panics (k : String) (acc : Str) (fty : Ty) (hk : knownRecv k = true)
    (hm : methodInfo k acc = none) (hf : fieldInfo k acc = some (false, fty)) :
    returnType (.ptr k) acc = .panic .nilType := by
  unfold returnType
  simp [recvOfTy, hk, hm, hf]

/-- the fields of a `gedcom.Date` (struct value): Day, Month, Year, IsEndOfRange, Constraint -/
theorem date_fields (p : PDate) (e : Bool) :
    fieldMenu "Day" (.date p e) = some (.int p.day) ∧ fieldMenu "Year" (.date p e) = some (.int p.year) ∧
    fieldMenu "Month" (.date p e) = some (.named "time.Month" p.month) ∧ fieldMenu "IsEndOfRange" (.date p e) = some (.bool e) ∧
    fieldMenu "Constraint" (.date p e) = some (.named "gedcom.DateConstraint" p.constraint.toNat) := by
  refine ⟨rfl, rfl, rfl, rfl, rfl⟩

/-- `StartDate` / `EndDate` are the two ends of the parsed range (shared date model of C04/C05); of a
    method with several results the first one is the value: `StartAndEndDates` = `StartDate` -/
theorem start_end_date_spec (now : Nat) (docs : List Forest) (d : Nat) (n : Node) :
    callMenu now docs "DateNode" "StartDate" (.node d n) = some (.val (.date (parseDateRange n.value).start false)) ∧
    callMenu now docs "DateNode" "EndDate" (.node d n) = some (.val (.date (parseDateRange n.value).end_ true)) ∧
    callMenu now docs "DateNode" "StartAndEndDates" (.node d n) = callMenu now docs "DateNode" "StartDate" (.node d n) := by
  refine ⟨rfl, rfl, rfl⟩

/-- the embedded `*SimpleNode`: the field `SimpleNode` and the method `RawSimpleNode` give the same
    value, and its Tag / Value / Pointer / Nodes are the node's -/
theorem raw_simple_node_spec (now : Nat) (docs : List Forest) (d : Nat) (n : Node) :
    fieldMenu "SimpleNode" (.node d n) = some (mkRaw d n) ∧
    callMenu now docs "NameNode" "RawSimpleNode" (.node d n) = some (.val (mkRaw d n)) ∧
    callMenu now docs "SimpleNode" "Value" (.raw d n) = some (.val (.str n.value)) ∧
    callMenu now docs "SimpleNode" "Nodes" (.raw d n) = some (.val (mkNodes d n.kids)) := by
  refine ⟨rfl, rfl, rfl, rfl⟩

/-- `ShallowCopy` (of the types that can be created without a family or a document): same tag,
    value and pointer, no children, in no document -/
theorem shallow_copy_spec (k : Nat) (n : Node)
    (h : (Node.kind n == "HusbandNode" || Node.kind n == "WifeNode" || Node.kind n == "ChildNode" ||
          Node.kind n == "IndividualNode" || Node.kind n == "FamilyNode") = false) :
    shallowCopy k n = .val (.node k (.mk n.tag n.value n.ptr [])) := by
  unfold shallowCopy
  simp only [h]
  rfl

/-- `AllEvents` is the order-preserving filter of the children by `Tag.IsEvent` (regenerated tag
    table); `EstimatedBirthDate` is the date `IsLiving` uses -/
theorem all_events_is_filter (now : Nat) (docs : List Forest) (d : Nat) (n : Node) :
    callMenu now docs "IndividualNode" "AllEvents" (.node d n) =
      some (.val (.slice "Nodes" .nodeI (n.kids.filter (fun k => tagIsEvent k.tag)).isEmpty
        ((n.kids.filter (fun k => tagIsEvent k.tag)).map (.node d)))) ∧
    callMenu now docs "IndividualNode" "EstimatedBirthDate" (.node d n) = some (.val (optDate d (estimatedBirthDate n))) := by
  refine ⟨rfl, rfl⟩

/-! ### the Go source, translated (harness/extract_querysrc.go, Model/QuerySrc.lean)

  The decision structure of q/binary_expr.go and the index arithmetic of First / Last are read
  from the source with go/ast on every run (`Generated.QuerySrc`), interpreted by the small
  functions of Model/QuerySrc.lean, and proved equal to the hand-written model definitions the
  theorems above are about — for all operands, all lists and all counts.  A source shape outside
  the translated fragment is `.bad` and fails the `…_in_fragment` obligations. -/

section Source
open Gedcom.QuerySrc

/-- every piece of binary_expr.go was recognised: the numeric condition, `ParseFloat(_, 64)`, the
    normalisation functions, the body of every operator function, the `Operators` rows -/
theorem ops_source_in_fragment : Generated.QuerySrc.ops.ok = true := by decide

/-- the operator names of the composite literal are the ones reflection sees, in the same order -/
theorem ops_table_is_reflected :
    Generated.QuerySrc.ops.table.map (·.1) = Generated.Query.operators.map (·.1) := by decide

/-- the statements of First / Last after `strconv.Atoi` were all recognised -/
theorem slicing_source_in_fragment :
    Generated.QuerySrc.firstStmts.all Stmt.ok = true ∧ Generated.QuerySrc.lastStmts.all Stmt.ok = true ∧
    Generated.QuerySrc.firstCountVar ≠ "" ∧ Generated.QuerySrc.lastCountVar ≠ "" := by decide

theorem applyNorm_lower_trim (s : Str) :
    applyNorm ["ToLower", "TrimSpace"] s = if isAsciiStr s then some (trimSpace (toLowerAscii s)) else none := by
  simp [applyNorm]

theorem text_branch (l r : Str) :
    textCmp ["ToLower", "TrimSpace"] ["ToLower", "TrimSpace"] l r =
    (if !(isAsciiStr l && isAsciiStr r) then Cmp.undetermined
     else Cmp.text (cmpStr (trimSpace (toLowerAscii l)) (trimSpace (toLowerAscii r)))) := by
  unfold textCmp
  rw [applyNorm_lower_trim, applyNorm_lower_trim]
  cases isAsciiStr l <;> cases isAsciiStr r <;> simp

/-- `srcCmp_is_model`.  "Numeric iff `binaryFloats`' condition (both ParseFloat calls succeed and
    neither value is NaN), else `TrimSpace(ToLower(·))` text" — as translated from the source — is
    the model's `compareOperands` at the regenerated NaN flag, for all operands. -/
theorem srcCmp_is_model (l r : Str) :
    srcCmp Generated.QuerySrc.ops l r = compareOperands Generated.Query.nanIsNumeric l r := by
  have hflag : Generated.Query.nanIsNumeric = false := by decide
  rw [hflag]
  unfold srcCmp compareOperands
  simp only [Generated.QuerySrc.ops, NumCond.eval]
  rw [text_branch]
  cases hl : parseNum l with
  | none => simp [isNumericNum]
  | some a =>
    cases hr : parseNum r with
    | none => simp [isNumericNum]
    | some b => cases a <;> cases b <;> simp [isNumericNum, numericCmp, bothNumeric]

theorem relop_is_truth_table (l r : Str) (op fn : String) (num text : RelOp)
    (ht : Generated.QuerySrc.ops.table.lookup op = some fn)
    (hf : Generated.QuerySrc.ops.fns.lookup fn = some (.numericElseText num text))
    (hn : ∀ o, num.holds o = opTruth Generated.Query.opTruthNumeric op o)
    (hx : ∀ o, text.holds o = opTruth Generated.Query.opTruthText op o) :
    srcApply Generated.QuerySrc.ops op l r = applyOpStr Generated.Query.nanIsNumeric op l r := by
  have hc := srcCmp_is_model l r
  have hnu := never_unordered l r
  unfold applyOpStr srcApply
  rw [ht]
  simp only [evalFn, hf]
  rw [← hc] at hnu ⊢
  cases hcmp : srcCmp Generated.QuerySrc.ops l r with
  | numeric o => simp [hn]
  | text o => simp [hx]
  | unordered => exact absurd hcmp hnu
  | undetermined => simp

theorem operators_are_the_source (op : String) (hop : op ∈ ["=", "!=", "<", "<=", ">", ">="]) (l r : Str) :
    srcApply Generated.QuerySrc.ops op l r = applyOpStr Generated.Query.nanIsNumeric op l r := by
  simp only [List.mem_cons, List.mem_nil_iff, or_false] at hop
  rcases hop with h | h | h | h | h | h <;> subst h
  · exact relop_is_truth_table l r "=" "equal" .eq .eq rfl rfl (by intro o; cases o <;> decide) (by intro o; cases o <;> decide)
  · -- `!=` is the negation of `equal` in the source
    have heq := relop_is_truth_table l r "=" "equal" .eq .eq rfl rfl (by intro o; cases o <;> decide) (by intro o; cases o <;> decide)
    have hneg : srcApply Generated.QuerySrc.ops "!=" l r = (srcApply Generated.QuerySrc.ops "=" l r).map (!·) := by
      simp only [srcApply]
      rfl
    rw [hneg, heq, neq_is_not_eq]
  · exact relop_is_truth_table l r "<" "lessThan" .lt .lt rfl rfl (by intro o; cases o <;> decide) (by intro o; cases o <;> decide)
  · exact relop_is_truth_table l r "<=" "lessThanEqual" .le .le rfl rfl (by intro o; cases o <;> decide) (by intro o; cases o <;> decide)
  · exact relop_is_truth_table l r ">" "greaterThan" .gt .gt rfl rfl (by intro o; cases o <;> decide) (by intro o; cases o <;> decide)
  · exact relop_is_truth_table l r ">=" "greaterThanEqual" .ge .ge rfl rfl (by intro o; cases o <;> decide) (by intro o; cases o <;> decide)

/-- `first_source_is_model`.  Running the translated statements of FirstExpr.Evaluate (clamp
    `max >= len`, `in.Slice(0, max)`) and slicing with Go's bounds check is the model's `firstN`,
    for every list and every count (negative ones included: the panic). -/
theorem first_source_is_model (vs : List Val) (n : Int) :
    sliceResult vs (run vs.length Generated.QuerySrc.firstStmts [(Generated.QuerySrc.firstCountVar, n)]) = firstN vs n := by
  simp only [Generated.QuerySrc.firstStmts, Generated.QuerySrc.firstCountVar, run, IExp.eval, BExp.eval, List.lookup,
    bind, Option.bind, pure]
  unfold firstN sliceResult
  by_cases h : n ≥ (vs.length : Int)
  · simp [h]
  · simp [h]
    by_cases h0 : n < 0
    · simp [h0]
    · have h1 : ¬ ((vs.length : Int) < n) := by omega
      simp [h0, h1]

/-- `last_source_is_model`.  The same for LastExpr.Evaluate (`x == 0`, `start := l - x`, clamp
    `start < 0`, `in.Slice(start, l)`) and `lastN`. -/
theorem last_source_is_model (vs : List Val) (n : Int) :
    sliceResult vs (run vs.length Generated.QuerySrc.lastStmts [(Generated.QuerySrc.lastCountVar, n)]) = lastN vs n := by
  simp only [Generated.QuerySrc.lastStmts, Generated.QuerySrc.lastCountVar, run, IExp.eval, BExp.eval, List.lookup,
    bind, Option.bind, pure]
  unfold lastN sliceResult
  by_cases h0 : n = 0
  · subst h0; simp
  · have hb : (n == 0) = false := by simpa using h0
    simp [hb]
    by_cases h : (vs.length : Int) - n < 0
    · simp [h]
    · simp [h]
      by_cases h2 : (vs.length : Int) < (vs.length : Int) - n
      · simp [h2]
      · simp [h2]
        apply List.take_of_length_le
        simp only [List.length_drop]
        omega

end Source

/-! ### determinism -/

/-- `deterministic`.  The evaluator is a function of the query, the fuel and the documents: the
    same query on the same documents has one result. -/
theorem deterministic (now fuel : Nat) (docs : List Forest) (eng : Engine) (o₁ o₂ : Outcome Val)
    (h₁ : evalTop now fuel docs eng = o₁) (h₂ : evalTop now fuel docs eng = o₂) : o₁ = o₂ := h₁ ▸ h₂

/-! ### non-vacuity: the hypotheses above are met by concrete queries on a concrete document -/

def exDoc : Forest :=
  [.mk (ascii "INDI") [] (ascii "I1") [.mk (ascii "NAME") (ascii "Nan /Doe/") [] [], .mk (ascii "SEX") (ascii "F") [] []],
   .mk (ascii "INDI") [] (ascii "I2") [.mk (ascii "NAME") (ascii "John /Smith/") [] []],
   .mk (ascii "INDI") [] (ascii "I3") []]

def st (es : List Expr) : Stmt := .mk [] es
def acc (s : String) : Expr := .acc (ascii s)
def fn (s : String) (args : List Stmt) : Expr := .call (ascii s) args
def k (s : String) : Expr := .const (ascii s)
def strs (xs : List String) : Val := .slice "" .str false (xs.map (fun s => .str (ascii s)))

def sameStrs (o : Outcome Val) (want : List String) : Bool :=
  match o with
  | .ok (.slice _ .str false vs) => (vs.map fun v => match v with | .str s => s | _ => [0]) == want.map ascii
  | _ => false

def isInt (o : Outcome Val) (n : Int) : Bool := match o with | .ok (.int m) => m == n | _ => false

/-- `.Individuals | .Name | .GivenName` maps over the three individuals (the third has no name:
    a typed nil pointer, whose GivenName is "") -/
example : sameStrs (evalTop 2026 3 [exDoc] [st [acc ".Individuals", acc ".Name", acc ".GivenName"]]) ["Nan", "John", ""] = true := by decide
/-- First / Last at and beyond the boundary n = len + 1 -/
example : isInt (evalTop 2026 3 [exDoc] [st [acc ".Individuals", fn "First" [st [k "4"]], fn "Length" []]]) 3 = true := by decide
example : isInt (evalTop 2026 3 [exDoc] [st [acc ".Individuals", fn "Last" [st [k "4"]], fn "Length" []]]) 3 = true := by decide
example : sameStrs (evalTop 2026 3 [exDoc] [st [acc ".Individuals", fn "Last" [st [k "2"]], acc ".Pointer"]]) ["I2", "I3"] = true := by decide
/-- Only with a pipeline condition; the person called Nan is found (defect 17 repaired) -/
example : sameStrs (evalTop 2026 3 [exDoc] [st [acc ".Individuals",
    fn "Only" [st [acc ".Name", .bin (acc ".GivenName") "=" (k "nan")]], acc ".Pointer"]]) ["I1"] = true := by decide
/-- Combine(E, E) | Length = 2 · (E | Length) -/
example : isInt (evalTop 2026 3 [exDoc] [st [fn "Combine" [st [acc ".Individuals"], st [acc ".Individuals"]], fn "Length" []]]) 6 = true := by decide
/-- a variable and its definition; shadowing: the first definition wins -/
example : isInt (evalTop 2026 4 [exDoc] [.mk (ascii "X") [acc ".Individuals"], .mk (ascii "X") [acc ".Families"],
    st [.var (ascii "X"), fn "Length" []]]) 3 = true := by decide
/-- numeric versus text comparison: "10" > "9" as numbers, "abc" < "ABD" ignoring case -/
example : applyOpStr false ">" (ascii "10") (ascii "9") = some true ∧ applyOpStr false ">" (ascii "10") (ascii "9x") = some false ∧
    applyOpStr false "<" (ascii "abc") (ascii "ABD") = some true ∧ applyOpStr false "=" (ascii " 1e1") (ascii "10") = some false ∧
    applyOpStr false "=" (ascii "1e1") (ascii "10.0") = some true := by decide

end Gedcom.C16
