/-
  C01 — Encode then decode returns the same document.
  Property theorems only.  `encode`/`decode` are the byte-level models in
  Gedcom/Model/Decoder.lean that the driver executes and the correspondence ties to
  `Document.String()` and `NewDecoder(..).Decode()`.  No bound on node count, nesting
  depth or string length.
-/
import Gedcom.Lemmas.RoundTrip
import Gedcom.Lemmas.MultiLine
import Gedcom.Generated.DecoderFacts
import Gedcom.Generated.EncoderFacts
namespace Gedcom.C01
open Gedcom Gedcom.Dec

/-- "Built through the public API from GEDCOM-legal parts": every tag a non-empty word
    (`[0-9A-Za-z_]+`); values without line breaks and already in trimmed form; pointers
    without `@` or line breaks; INDI and FAM records carry no value (the API cannot give them
    one); every HUSB/WIFE/CHIL node comes after some FAM node in document order (such nodes
    cannot be created without a family). -/
structure Legal (d : Doc) : Prop where
  nodes : LegalF d.nodes
  roles : rolesOKF false d.nodes = true

theorem stripBOM_encode (d : Doc) : stripBOM (encode d) = (d.hasBOM, encForest 0 d.nodes) := by
  unfold encode stripBOM
  cases hb : d.hasBOM
  · -- the text is empty or starts with the digit of level 0
    cases hn : d.nodes with
    | nil => simp [encForest, BOM]
    | cons t ts =>
      obtain ⟨tg, v, p, ks⟩ := t
      have : natToDec 0 = [48] := by rw [natToDec]; simp
      simp [encForest, encNode, renderLine, this, BOM, List.isPrefixOf]
  · simp [BOM, List.isPrefixOf]

/-- **Round trip.** For every legal document, with or without BOM, and *every* combination
    of `AllowMultiLine` and `AllowInvalidIndents`, decoding the encoder's text yields exactly
    the same document: same tag, value, pointer, child order and nesting at every position,
    same BOM flag (the node kind is a function of the tag, `Generated.kindOfTag`).  In
    particular the encoder's text is always accepted (`.ok`, never `.error` or `.panic`). -/
theorem decode_encode (d : Doc) (h : Legal d) (o : Opts) : decode o (encode d) = .ok d := by
  unfold decode
  rw [stripBOM_encode]
  simp only
  have hinit : TopOK (⟨[], [], false⟩ : St) := by intro f fs hf; simp at hf
  obtain ⟨s', n', hrun, _, htop, _, hclose⟩ :=
    runF o d.nodes 0 ⟨[], [], false⟩ 1 [] (by simp) hinit h.nodes h.roles
  simp only [List.append_nil] at hrun
  have : splitLines (encForest 0 d.nodes) = splitLines.go (encForest 0 d.nodes) [] := rfl
  rw [this, hrun]
  have h0 : closeTo 0 (⟨[], [], false⟩ : St) = ⟨[], [], false⟩ := by simp [closeTo, closeN]
  -- the text ends with a line feed, so the last line is blank
  by_cases hm : (o.allowMultiLine && !s'.stack.isEmpty) = true
  · have hlast : run o s' n' (splitLines.go [] []) = .inr (appendTop [LF] s') := by
      simp [splitLines.go, run, step, hm]
    rw [hlast]
    simp only [trimTop_appendTop_LF s' htop, hclose, h0]
    simp [attach, setFam]
  · have hlast : run o s' n' (splitLines.go [] []) = .inr s' := by
      simp [splitLines.go, run, step, hm]
    rw [hlast]
    simp only [trimTop_of_TopOK s' htop, hclose, h0]
    simp [attach, setFam]

/-- the encoder's text is never rejected -/
theorem encode_accepted (d : Doc) (h : Legal d) (o : Opts) :
    (∀ n, decode o (encode d) ≠ .error n) ∧ (∀ c, decode o (encode d) ≠ .panic c) := by
  rw [decode_encode d h o]
  exact ⟨fun _ => by simp, fun _ => by simp⟩

/-- every decimal level the encoder writes reads back (any depth, not only 0–9) -/
theorem level_round_trip (n : Nat) : decToNat (natToDec n) = n := decToNat_natToDec n

/-- one written line reads back field by field -/
theorem line_round_trip (l : Line) (h : LegalLine l) : parseLine (renderLine l) = some l :=
  parseLine_renderLine l h

/-- the executable legality check the driver answers `legal` requests with implies `Legal`
    (so every forest the harness generates and the model accepts as legal is covered by
    `decode_encode`) -/
theorem legal_of_check (d : Doc) (h : legalDocB d = true) : Legal d := by
  unfold legalDocB at h
  rw [Bool.and_eq_true] at h
  exact ⟨legalFB_sound _ h.1, h.2⟩

/-! Non-vacuity (a test on a literal, not the property): a document with BOM, a FAM with
    HUSB, a value that looks like a pointer, a numeric tag with a pointer containing a space
    on a nested node, three levels deep — it meets `Legal`. -/
def sample : Doc := ⟨true,
  [.mk tFAM [] [70, 49] [.mk tHUSB [64, 73, 49, 64] [] []],
   .mk tINDI [] [73, 49]
     [.mk [78, 65, 77, 69] [64, 73, 49, 64] []
       [.mk [49, 50, 51] [48] [112, 32, 113] [.mk [95, 88] [49, 32, 78, 79, 84, 69, 32, 120] [] []]]]]⟩

example : Legal sample := by
  apply legal_of_check
  simp [sample, legalDocB, legalFB, legalTB, legalHdrB, rolesOKF, rolesOKT, famAfterT, famAfterF,
    isRoleTag, isRecordTag, isWord, tFAM, tHUSB, tWIFE, tCHIL, tINDI, AT, LF, CR,
    trimSpace, trimLeft, trimLeftRev, trimL, prefLen, spaceSeqs, spaceSeqsRev,
    List.isPrefixOf, List.find?]

/-- **Obligation on the regenerated decoder facts.** What the byte-level model hard-codes about
    decoder.go and the library calls it makes is what the current source says: the code points
    `strings.TrimSpace` strips (probed on every valid code point on every run) are exactly the
    model's table, invalid or truncated UTF-8 is kept, `trimNodeValue` goes through
    `strings.TrimSpace`, `readLine` ends a line at LF and at CR and nowhere else, and the byte
    order mark is EF BB BF. -/
theorem decoder_source_facts :
    Generated.goSpaceSeqs = spaceSeqs ∧ Generated.goTrimKeepsInvalid = true ∧
    Generated.trimUsesTrimSpace = true ∧ Generated.readLineBreaks = [LF, CR] ∧
    Generated.bomBytes = BOM := by decide

/-- **The line writer is the source's.** `Generated.gedcomLineProgram` is translated on every
    run, statement by statement, from the body of `SimpleNode.GEDCOMLine` (guarded buffer writes,
    `Sprintf` formats split into literal bytes and fields).  Running the translated program on a
    line gives exactly the model's `renderLine`, for every level, pointer, tag and value. -/
theorem renderLine_is_the_source_program (l : Line) :
    Emit.supported Generated.gedcomLineProgram = true ∧
    Emit.runProgram Generated.gedcomLineProgram l = renderLine l := by
  refine ⟨by decide, ?_⟩
  simp only [Generated.gedcomLineProgram, Emit.runProgram, List.flatMap_cons, List.flatMap_nil,
    Emit.Emit.eval, Emit.evalPieces, Emit.Piece.eval, renderLine, List.append_nil]
  by_cases hp : l.ptr = [] <;> by_cases hv : l.value = [] <;> simp [hp, hv, SP, AT]

/-- **Obligation on the regenerated encoder facts**: `SimpleNode.GEDCOMLine` is the only
    `GEDCOMLine` method (every node type embeds `SimpleNode`), `renderNode` appends one LF to a
    line and writes children one level deeper, `Encode` writes the byte order mark first and the
    root nodes in order. -/
theorem encoder_source_facts :
    Generated.gedcomLineMethods = 1 ∧ Generated.lineTerminator = [LF] ∧
    Generated.childIndentDelta = 1 ∧ Generated.encodeBOMFirst = true := by decide

/-- **Round trip with multi-line values.** `AllowMultiLine` makes the decoder return documents
    whose values contain line feeds (every blank or unparsable line continues the previous value);
    `Document.String()` writes such a value over several physical lines.  For every document that
    satisfies `legalMLDocB` — tags, pointers and record lines as in `Legal`; values in trimmed form
    without carriage returns, whose parts after each line feed are lines the decoder would again
    treat as continuations at that position (blank, not in the line grammar, or a HUSB/WIFE/CHIL
    line before any family) — decoding the encoder's text with `AllowMultiLine` yields exactly the
    same document, with or without `AllowInvalidIndents`.  Every `Legal` document satisfies the
    hypothesis (`legalML_of_legal` below), and the harness asks the model to evaluate it on every
    document the real decoder returns under `AllowMultiLine`. -/
theorem decode_encode_multiline (d : Doc) (h : legalMLDocB d = true) (o : Opts)
    (hm : o.allowMultiLine = true) : decode o (encode d) = .ok d := by
  unfold decode
  rw [stripBOM_encode]
  simp only
  have hinit : TopOK (⟨[], [], false⟩ : St) := by intro f fs hf; simp at hf
  obtain ⟨s', n', hrun, _, htop, _, hclose⟩ :=
    runF_ML o hm d.nodes 0 ⟨[], [], false⟩ 1 [] (by simp) hinit h
  simp only [List.append_nil] at hrun
  have : splitLines (encForest 0 d.nodes) = splitLines.go (encForest 0 d.nodes) [] := rfl
  rw [this, hrun]
  have h0 : closeTo 0 (⟨[], [], false⟩ : St) = ⟨[], [], false⟩ := by simp [closeTo, closeN]
  by_cases hs : (o.allowMultiLine && !s'.stack.isEmpty) = true
  · have hlast : run o s' n' (splitLines.go [] []) = .inr (appendTop [LF] s') := by
      simp [splitLines.go, run, step, hs]
    rw [hlast]
    simp only [trimTop_appendTop_LF s' htop, hclose, h0]
    simp [attach, setFam]
  · have hlast : run o s' n' (splitLines.go [] []) = .inr s' := by
      simp [splitLines.go, run, step, hs]
    rw [hlast]
    simp only [trimTop_of_TopOK s' htop, hclose, h0]
    simp [attach, setFam]

/-- the hypothesis of `decode_encode_multiline` is weaker than `Legal` -/
theorem legalML_of_legal (d : Doc) (h : Legal d) : legalMLDocB d = true :=
  legalMLF_of_legal false d.nodes h.nodes h.roles

/-- non-vacuity: a NOTE whose value runs over three physical lines (one of them blank) below a
    record, a second root after it -/
example :
    legalMLDocB ⟨false, [.mk [73, 78, 68, 73] [] [73, 49]
        [.mk [78, 79, 84, 69] [97, 10, 10, 98, 32, 99] [] []],
      .mk [88] [49] [] []]⟩ = true := by
  simp [legalMLDocB, legalMLF, legalMLT, legalHdrMLB, splitLF, contOKB, parseLine, parsePtr,
    trimSpace, trimLeft, trimLeftRev, trimL, prefLen, spaceSeqs, spaceSeqsRev, famAfterT,
    famAfterF, isRoleTag, isRecordTag, tINDI, tFAM, tHUSB, tWIFE, tCHIL, isWord, isDigit, LF, CR,
    AT, SP, List.isPrefixOf]

end Gedcom.C01
