/-
  C17 — no dependence on earlier publishes: with the memo keyed by (document, visibility) every
  publish of every history of publishers of one document is given the surname set of a fresh
  process — `Living.surnameList` of the document and *its own* visibility — so the surname list and
  the Surnames badge of a hide or placeholder site are functions of the document and the options
  only (and, by `surnameList_hidden_independent`, not of the living people's data).  With the key
  reduced to the document the statement is false (`history_leak_counterexample`: the seeded change
  of wave 6).
-/
import Gedcom.Model.PublishHistory
import Gedcom.Props.C17
namespace Gedcom.C17
open Gedcom Gedcom.Living Gedcom.History

/-- the regenerated fact the theorem rests on -/
theorem generated_history_flags_safe : generatedHFlags.cacheKeyedByVisibility = true := by decide

/-- everything that is remembered is what would be collected now -/
def Coherent (fl : Flags) (ps : List Person) (c : Cache) : Prop :=
  ∀ v s, lookup c v = some s → s = surnameList fl ps v

theorem coherent_nil (fl : Flags) (ps : List Person) : Coherent fl ps [] := by
  intro v s h; simp [lookup] at h

theorem getSurnames_spec (hf : HFlags) (hk : hf.cacheKeyedByVisibility = true) (fl : Flags) (ps : List Person)
    (c : Cache) (hc : Coherent fl ps c) (v : Vis) :
    (getSurnames hf fl ps c v).2 = surnameList fl ps v ∧ Coherent fl ps (getSurnames hf fl ps c v).1 := by
  unfold getSurnames
  have hkey : key hf v = v := by simp [key, hk]
  rw [hkey]
  cases hl : lookup c v with
  | some s => exact ⟨hc v s hl, hc⟩
  | none =>
    refine ⟨rfl, ?_⟩
    intro v' s' h'
    simp only [lookup] at h'
    split at h'
    · rename_i heq
      have : v = v' := by simpa using heq
      subst this
      exact (Option.some.inj h').symm
    · exact hc v' s' h'

/-- the surname sets a history must produce: one per publish, each of its own visibility -/
def expected (fl : Flags) (ps : List Person) : List Op → List (List Str)
  | [] => []
  | .new :: ops => expected fl ps ops
  | .pub v :: ops => surnameList fl ps v :: expected fl ps ops

/-- **No dependence on earlier publishes.**  For every history of publishers and publishes on one
    document, started from any coherent memo, each publish is given exactly
    `surnameList fl ps v` for its own visibility `v`. -/
theorem history_independent (hf : HFlags) (hk : hf.cacheKeyedByVisibility = true) (fl : Flags) (ps : List Person)
    (ops : List Op) (c : Cache) (hc : Coherent fl ps c) :
    run hf fl ps c ops = expected fl ps ops := by
  induction ops generalizing c with
  | nil => rfl
  | cons op ops ih =>
    cases op with
    | new =>
      simp only [run, step, expected]
      apply ih
      split
      · exact coherent_nil fl ps
      · exact hc
    | pub v =>
      have h := getSurnames_spec hf hk fl ps c hc v
      simp only [run, step, expected, h.1]
      rw [ih _ h.2]

/-- … in particular what a fresh process publishes -/
theorem history_matches_fresh (hf : HFlags) (hk : hf.cacheKeyedByVisibility = true) (fl : Flags) (ps : List Person)
    (pre : List Op) (v : Vis) :
    run hf fl ps [] (pre ++ [.pub v]) = expected fl ps pre ++ fresh hf fl ps v := by
  rw [history_independent hf hk fl ps _ [] (coherent_nil fl ps)]
  have hf' : fresh hf fl ps v = [surnameList fl ps v] := by
    unfold fresh
    rw [history_independent hf hk fl ps _ [] (coherent_nil fl ps)]
    rfl
  rw [hf']
  induction pre with
  | nil => rfl
  | cons op pre ih => cases op <;> simp [expected, ih]

/-- hence, at the regenerated facts, the surname set of a hide-mode publish anywhere in a history
    does not depend on the living people's private strings -/
theorem history_hide_independent (fl : Flags) (h : fl.surnamesRespectVisibility = true)
    (hf : HFlags) (hk : hf.cacheKeyedByVisibility = true) (ps ps' : List Person)
    (hs : surnameList fl ps .hide = surnameList fl ps' .hide) (pre : List Op) :
    (run hf fl ps [] (pre ++ [.pub .hide])).getLast? = (run hf fl ps' [] (pre ++ [.pub .hide])).getLast? := by
  have _ := h
  rw [history_matches_fresh hf hk fl ps pre .hide, history_matches_fresh hf hk fl ps' pre .hide]
  have e1 : fresh hf fl ps .hide = [surnameList fl ps .hide] := by
    unfold fresh; rw [history_independent hf hk fl ps _ [] (coherent_nil fl ps)]; rfl
  have e2 : fresh hf fl ps' .hide = [surnameList fl ps' .hide] := by
    unfold fresh; rw [history_independent hf hk fl ps' _ [] (coherent_nil fl ps')]; rfl
  rw [e1, e2, hs]
  simp

def hLiv : Person := ⟨⟨true, .female⟩, { (default : Priv) with surname := [76] }⟩
def hDead : Person := ⟨⟨false, .male⟩, { (default : Priv) with surname := [68] }⟩

/-- With the memo keyed by the document alone, two publishers constructed up front and the show
    site published first hand the living person's surname to the hide site. -/
theorem history_leak_counterexample :
    run ⟨false, true⟩ ⟨true, true, true⟩ [hLiv, hDead] [] [.new, .new, .pub .show, .pub .hide] = [[[76], [68]], [[76], [68]]] ∧
    run ⟨true, true⟩ ⟨true, true, true⟩ [hLiv, hDead] [] [.new, .new, .pub .show, .pub .hide] = [[[76], [68]], [[68]]] := by
  decide

/-- … while publishers used strictly one after the other hide it even then (why single publishes
    stay right under that change) -/
example : run ⟨false, true⟩ ⟨true, true, true⟩ [hLiv, hDead] [] [.new, .pub .show, .new, .pub .hide] = [[[76], [68]], [[68]]] := by
  decide

end Gedcom.C17
