/-
  C04 — every documented date form parses to its documented meaning.

  Property theorems only; they are about `parseDateRange`, `DateRange.toString` and
  `dateNodeToString` of Gedcom/Model/DateParse.lean — the functions the driver executes and the
  correspondence ties to `NewDateRangeWithString`, `DateRange.String`, `DateNode.String`.
  Keyword lists, keyword → constraint, month words and printed spellings are the *generated*
  ones (Gedcom/Generated/Dates.lean): per-word facts are decided over those lists (so a changed
  list re-checks them) and lifted to all letter cases, all spacings and all numeric values.
-/
import Gedcom.Lemmas.DateReject
namespace Gedcom.C04
open Gedcom

/-! ## the documented grammar -/

/-- every keyword spelling of the exported lists `DateWordsAbout`, `DateWordsAfter`, `DateWordsBefore` -/
def keywords : List Str := Generated.wordsAbout ++ Generated.wordsAfter ++ Generated.wordsBefore

/-- `w'` is `w` written in some letter case: any upper/lower choice per character -/
def CaseVariant (w w' : Str) : Prop := lowerStr w' = lowerStr w

instance (w w' : Str) : Decidable (CaseVariant w w') := by unfold CaseVariant; exact inferInstance

def inList (l : List Str) (w : Str) : Bool := l.any fun x => lowerStr x == lowerStr w

/-- documented meaning of a keyword: the list it stands in -/
def docConstraint (w : Str) : Constraint :=
  if inList Generated.wordsAbout w then .about
  else if inList Generated.wordsAfter w then .after
  else if inList Generated.wordsBefore w then .before
  else .exact

def Body.year : Body → Nat
  | .Y _ y => y | .MY _ _ y => y | .DMY _ _ _ _ y => y | .ZMY _ _ _ y => y

def Body.day : Body → Nat
  | .DMY _ d _ _ _ => d | _ => 0

/-- the date a sentence is documented to denote (one end) -/
def meaning (x : Sentence) : PDate :=
  { day := Body.day x.body
    month := ((x.body.word.bind monthOfWord).getD 0)
    year := Body.year x.body
    constraint := match x.kw with | some T => docConstraint T | none => .exact
    parseError := false }

/-- `x` is a sentence of the documented grammar: the keyword (if any) is a listed keyword in any
    letter case; the month (if any) is a listed month word in any letter case; the year is
    1..9999 (any number of leading zeros); a day needs a month and lies in 1..(days in month),
    leap years by the Gregorian rule (any number of leading zeros) -/
structure Documented (x : Sentence) : Prop where
  kw : ∀ T, x.kw = some T → ∃ k ∈ keywords, CaseVariant k T
  month : ∀ M, x.body.word = some M → ∃ wm ∈ Generated.monthWords, CaseVariant wm.1 M
  year : 1 ≤ Body.year x.body ∧ Body.year x.body ≤ 9999
  day : match x.body with
        | .DMY _ d M _ y => ∀ m, monthOfWord M = some m → 1 ≤ d ∧ (d : Int) ≤ dim (isLeap y) m
        | .ZMY _ _ _ _ => False
        | _ => True

/-- the bytes of an ASCII string literal -/
def lit (s : String) : Str := s.toList.map fun c => UInt8.ofNat c.toNat

/-! ## facts decided over the generated lists -/

/-- the month names and abbreviations listed in the documentation of `Date` -/
def documentedMonths : List (String × Nat) :=
  [("apr", 4), ("april", 4), ("aug", 8), ("august", 8), ("dec", 12), ("december", 12), ("feb", 2),
   ("february", 2), ("jan", 1), ("january", 1), ("jul", 7), ("july", 7), ("jun", 6), ("june", 6),
   ("mar", 3), ("march", 3), ("may", 5), ("nov", 11), ("november", 11), ("oct", 10), ("october", 10),
   ("sep", 9), ("september", 9)]

/-- the keyword spellings of the property statement with their documented meaning -/
def documentedKeywords : List (String × Constraint) :=
  [("abt", .about), ("abt.", .about), ("about", .about), ("c.", .about), ("ca", .about),
   ("ca.", .about), ("cca", .about), ("cca.", .about), ("circa", .about),
   ("aft", .after), ("aft.", .after), ("after", .after),
   ("bef", .before), ("bef.", .before), ("before", .before)]

/-- **The regenerated tables contain the documented grammar**: every documented month word maps to
    its month, every documented keyword spelling stands in the list of its constraint, and the
    documented between/and words are listed.  (Additions to the lists do not disturb this;
    a removed or re-mapped word does.) -/
theorem documented_words_present :
    (∀ p ∈ documentedMonths, monthOf (lit p.1) = some p.2) ∧
    (∀ p ∈ documentedKeywords, inList keywords (lit p.1) = true ∧ docConstraint (lit p.1) = p.2) ∧
    (∀ w ∈ ["between", "bet", "bet.", "from"], inList Generated.wordsBetween (lit w) = true) ∧
    (∀ w ∈ ["and", "to", "-"], inList Generated.wordsAnd (lit w) = true) := by decide

theorem keywords_listed : ∀ k ∈ keywords, k ∈ dateKeywords := by decide

theorem keywords_constraint :
    ∀ k ∈ keywords, constraintFromString k = docConstraint k ∧ docConstraint k ≠ .exact := by decide

theorem constraint_nil : constraintFromString [] = .exact := by decide

/-- the constraint probe was consistent (case-insensitive, Exact outside the lists) and the source
    of the two patterns does not paste a `DateWords*` constant unquoted into the pattern (or the
    declaration could not be located) -/
theorem generated_flags :
    Generated.constraintProbeConsistent = true ∧ Generated.dateRegexpQuoted ≠ some false ∧
    Generated.dateRangeRegexpQuoted ≠ some false := by decide

/-! ## lifting -/

theorem kwTok_of_documented {T : Str} (h : ∃ k ∈ keywords, CaseVariant k T) : KwTok T := by
  obtain ⟨k, hk, hv⟩ := h
  exact ⟨k, keywords_listed k hk, hv⟩

theorem inList_lower_eq (l : List Str) {s t : Str} (h : lowerStr s = lowerStr t) :
    inList l s = inList l t := by
  unfold inList; rw [h]

theorem docConstraint_lower_eq {s t : Str} (h : lowerStr s = lowerStr t) :
    docConstraint s = docConstraint t := by
  unfold docConstraint
  rw [inList_lower_eq _ h, inList_lower_eq _ h, inList_lower_eq _ h]

theorem constraint_of_documented {T : Str} (h : ∃ k ∈ keywords, CaseVariant k T) :
    constraintFromString T = docConstraint T := by
  obtain ⟨k, hk, hv⟩ := h
  have : constraintFromString T = constraintFromString k := by
    unfold constraintFromString; rw [hv]
  rw [this, (keywords_constraint k hk).1, docConstraint_lower_eq hv]

theorem month_of_documented {M : Str} (h : ∃ wm ∈ Generated.monthWords, CaseVariant wm.1 M) :
    ∃ m, monthOfWord M = some m ∧ 1 ≤ m ∧ m ≤ 12 ∧ WordTok M ∧ NoKwPrefix M ∧ NotBetween M := by
  obtain ⟨wm, hwm, hv⟩ := h
  obtain ⟨hl, hm, h1, h12⟩ := monthWords_facts wm hwm
  obtain ⟨hw, hlow⟩ := wordTok_of_variant hl hv
  refine ⟨wm.2, ?_, h1, h12, hw, month_no_kw_prefix hwm hv, notBetween_of_month hwm hv⟩
  unfold monthOfWord; rw [hlow]; exact hm

theorem wf_of_documented {x : Sentence} (h : Documented x) : x.WF := by
  refine ⟨fun T hT => kwTok_of_documented (h.kw T hT), ?_, ?_⟩
  · intro M hM
    obtain ⟨_, _, _, _, hw, _⟩ := month_of_documented (h.month M hM)
    exact hw
  · intro _ M yz y hb
    obtain ⟨_, _, _, _, _, h1, h2⟩ := month_of_documented (h.month M (by rw [hb]; rfl))
    exact ⟨h1, h2⟩

theorem kwText_constraint {x : Sentence} (h : ∀ T, x.kw = some T → ∃ k ∈ keywords, CaseVariant k T) :
    constraintFromString x.kwText = (match x.kw with | some T => docConstraint T | none => .exact) := by
  cases hk : x.kw with
  | none => simp [Sentence.kwText, hk, constraint_nil]
  | some T => simpa [Sentence.kwText, hk] using constraint_of_documented (h T hk)

theorem min_maxInt {n : Nat} (h : n ≤ 9999) : min n maxInt = n := by
  unfold maxInt; omega

theorem dim_le_31 (l : Bool) (m : Nat) : dim l m ≤ 31 := by
  unfold dim; split <;> (try split) <;> omega

/-- what a documented sentence parses to -/
theorem result_of_documented {x : Sentence} (h : Documented x) : x.result = meaning x := by
  have hc := kwText_constraint h.kw
  obtain ⟨hy1, hy2⟩ := h.year
  have hday := h.day
  unfold Sentence.result meaning
  cases hb : x.body with
  | Y yz y =>
    rw [hb] at hy1 hy2
    simp only [Body.year] at hy1 hy2
    simp [Body.groups, partsResult_Y _ yz hy1, hc, min_maxInt hy2, Body.day, Body.word, Body.year]
  | MY M yz y =>
    rw [hb] at hy1 hy2
    simp only [Body.year] at hy1 hy2
    obtain ⟨m, hm, _, _, hw, _⟩ := month_of_documented (h.month M (by rw [hb]; rfl))
    simp [Body.groups, partsResult_MY _ hw.solid yz hy1, hc, min_maxInt hy2, Body.day, Body.word,
      Body.year, hm]
  | DMY dz d M yz y =>
    rw [hb] at hy1 hy2 hday
    simp only [Body.year] at hy1 hy2
    obtain ⟨m, hm, hm1, _, hw, _⟩ := month_of_documented (h.month M (by rw [hb]; rfl))
    obtain ⟨hd1, hd2⟩ := hday m hm
    have hd31 : d ≤ 9999 := by have := dim_le_31 (isLeap y) m; omega
    have hcal : calendarOK d m y = true := by
      simp [calendarOK, hy2, hd1, hd2]; omega
    simp [Body.groups, partsResult_DMY _ dz hd1 hw.solid yz hy1, hc, min_maxInt hy2,
      min_maxInt hd31, Body.day, Body.word, Body.year, hm, hcal]
  | ZMY dz M yz y => rw [hb] at hday; exact absurd hday (by simp)

/-! ## the property -/

/-- **Every documented single-date form parses to its documented meaning.**
    For every sentence of the documented grammar — any listed keyword or none, in any letter
    case; year only, month + year or day + month + year; any listed month word in any letter
    case; every year 1..9999 and every day valid in its month, each with any number of leading
    zeros — written with any number of spaces around it and any number (at least one) between its
    tokens, both ends of the parsed range are exactly the written day, month, year and the
    keyword's constraint, and the range is valid. -/
theorem single_forms (x : Sentence) (hx : Documented x) (gt : List (Nat × Str)) (e : Nat)
    (htok : gt.map (·.2) = x.tokens) (hgap : GapsOK gt) :
    (parseDateRange (render gt e)).start = meaning x ∧
    (parseDateRange (render gt e)).end_ = meaning x ∧
    (parseDateRange (render gt e)).isValid = true := by
  rw [x.parse (wf_of_documented hx) gt e htok hgap, result_of_documented hx]
  refine ⟨rfl, rfl, ?_⟩
  have := hx.year.1
  simp [DateRange.isValid, PDate.isZero, meaning]; omega

/-! ## ranges -/

theorem between_listed : ∀ k ∈ Generated.wordsBetween, k ∈ betweenKeywords := by decide
theorem and_listed : ∀ k ∈ Generated.wordsAnd, k ∈ andKeywords := by decide
theorem notAnd_of_documented {x : Sentence} (h : Documented x) : ∀ t ∈ x.tokens, NotAnd t := by
  intro t ht
  simp only [Sentence.tokens, List.mem_append, Option.mem_toList] at ht
  have hmonth : ∀ M, x.body.word = some M → NotAnd M := by
    intro M hM aw haw e
    obtain ⟨wm, hwm, hv⟩ := h.month M hM
    exact and_not_month aw haw wm hwm (e.trans hv)
  rcases ht with ht | ht
  · obtain ⟨k, hk, hv⟩ := h.kw t ht
    intro aw haw e
    exact and_not_keyword aw haw k (keywords_listed k hk) (e.trans hv)
  · cases hb : x.body with
    | Y yz y =>
      rw [hb] at ht; simp [Body.tokens] at ht; subst ht
      exact notAnd_of_isDigits (isDigits_numeral _ _)
    | MY M yz y =>
      rw [hb] at ht; simp [Body.tokens] at ht
      rcases ht with rfl | rfl
      · exact hmonth _ (by rw [hb]; rfl)
      · exact notAnd_of_isDigits (isDigits_numeral _ _)
    | DMY dz d M yz y =>
      rw [hb] at ht; simp [Body.tokens] at ht
      rcases ht with rfl | rfl | rfl
      · exact notAnd_of_isDigits (isDigits_numeral _ _)
      · exact hmonth _ (by rw [hb]; rfl)
      · exact notAnd_of_isDigits (isDigits_numeral _ _)
    | ZMY dz M yz y =>
      have := h.day; rw [hb] at this; exact absurd this (by simp)

/-- **Every documented range form parses to its documented meaning.**
    `B X A Y` with `B` any listed between-word and `A` any listed and-word, each in any letter
    case, `X` and `Y` any two sentences of the documented single-date grammar (each with its own
    optional keyword), any admissible spacing: the start is exactly what `X` denotes, the end
    exactly what `Y` denotes, and the range is valid. -/
theorem range_forms (BW AW : Str)
    (hbw : ∃ k ∈ Generated.wordsBetween, CaseVariant k BW)
    (haw : ∃ k ∈ Generated.wordsAnd, CaseVariant k AW)
    (x1 x2 : Sentence) (h1 : Documented x1) (h2 : Documented x2)
    (gt : List (Nat × Str)) (e : Nat)
    (htok : gt.map (·.2) = BW :: x1.tokens ++ AW :: x2.tokens) (hgap : GapsOK gt) :
    (parseDateRange (render gt e)).start = meaning x1 ∧
    (parseDateRange (render gt e)).end_ = meaning x2 ∧
    (parseDateRange (render gt e)).isValid = true := by
  obtain ⟨kb, hkb, hvb⟩ := hbw
  obtain ⟨ka, hka, hva⟩ := haw
  rw [range_parse x1 x2 (wf_of_documented h1) (wf_of_documented h2) (notAnd_of_documented h2)
    ⟨kb, between_listed kb hkb, hvb⟩ ⟨ka, and_listed ka hka, hva⟩ gt e htok hgap,
    result_of_documented h1, result_of_documented h2]
  refine ⟨rfl, rfl, ?_⟩
  have := h1.year.1
  have := h2.year.1
  simp [DateRange.isValid, PDate.isZero, meaning]; omega

/-! ## near misses are invalid -/

/-- a word the month position can hold without being read as something else: ASCII word
    characters, not starting with a digit; if it opens the sentence, no keyword is a prefix of it
    (`abtmar 1900` *is* read as `abt mar 1900`) and it is not a between-word -/
structure PlainWord (M : Str) : Prop where
  ne : M ≠ []
  word : ∀ b ∈ M, isWordB b = true
  head : ∀ m0 M', M = m0 :: M' → isDigitB m0 = false

theorem solidB_of_word {b : UInt8} (h : isWordB b = true) : solidB b = true := by
  simp [isWordB, isDigitB, isUpperB, isLowerB, solidB] at *; omega

theorem wordTok_of_plain {M : Str} (h : PlainWord M) : WordTok M := by
  refine ⟨h.word, ⟨h.ne, fun b hb => solidB_of_word (h.word b hb)⟩, ?_⟩
  cases hM : M with
  | nil => exact absurd hM h.ne
  | cons m0 M' =>
    exact ⟨m0, M', rfl, h.head m0 M' hM, ne32_of_solid (solidB_of_word (h.word m0 (by simp [hM])))⟩

/-- sentences that differ from the documented grammar in the day or in the month word -/
structure NearMiss (x : Sentence) : Prop where
  kw : ∀ T, x.kw = some T → ∃ k ∈ keywords, CaseVariant k T
  word : ∀ M, x.body.word = some M → PlainWord M
  first : x.kw = none → ∀ M yz y, x.body = .MY M yz y → NoKwPrefix M ∧ NotBetween M
  year : 1 ≤ Body.year x.body ∧ Body.year x.body ≤ 9999
  bad : match x.body with
        | .Y _ _ => False
        | .MY M _ _ => monthOfWord M = none
        | .DMY _ d M _ y =>
          1 ≤ d ∧ (monthOfWord M = none ∨ ∃ m, monthOfWord M = some m ∧ dim (isLeap y) m < (d : Int))
        | .ZMY _ _ _ _ => True

theorem wf_of_nearMiss {x : Sentence} (h : NearMiss x) : x.WF :=
  ⟨fun T hT => kwTok_of_documented (h.kw T hT), fun M hM => wordTok_of_plain (h.word M hM), h.first⟩

theorem result_of_nearMiss {x : Sentence} (h : NearMiss x) : x.result.isZero = true := by
  obtain ⟨hy1, hy2⟩ := h.year
  have hbad := h.bad
  unfold Sentence.result
  cases hb : x.body with
  | Y yz y => rw [hb] at hbad; exact absurd hbad (by simp)
  | MY M yz y =>
    rw [hb] at hbad hy1; simp only [Body.year] at hy1; simp only at hbad
    have hw := wordTok_of_plain (h.word M (by rw [hb]; rfl))
    simp [Body.groups, partsResult_MY _ hw.solid yz hy1, hbad, PDate.failed, PDate.isZero]
  | DMY dz d M yz y =>
    rw [hb] at hbad hy1 hy2; simp only [Body.year] at hy1 hy2; simp only at hbad
    obtain ⟨hd1, hbad⟩ := hbad
    have hw := wordTok_of_plain (h.word M (by rw [hb]; rfl))
    rcases hbad with hm | ⟨m, hm, hd⟩
    · simp [Body.groups, partsResult_DMY _ dz hd1 hw.solid yz hy1, hm, PDate.failed, PDate.isZero]
    · have hcal : calendarOK (min d maxInt) m (min y maxInt) = false := by
        rw [min_maxInt hy2]
        have h31 := dim_le_31 (isLeap y) m
        have : (dim (isLeap (y : Int)) m) < ((min d maxInt : Nat) : Int) := by
          unfold maxInt; omega
        simp [calendarOK]; intro _ _ _; omega
      simp [Body.groups, partsResult_DMY _ dz hd1 hw.solid yz hy1, hm, hcal, PDate.failed,
        PDate.isZero]
  | ZMY dz M yz y =>
    simp [Body.groups, partsResult_ZMY, PDate.failed, PDate.isZero]

/-- **Calendar-impossible days and unknown month words are reported as invalid.**
    A sentence that is documented except that its day is 0 (any number of zeros) or larger than
    the number of days of its month in its year (30/31 in short months, 29 February outside leap
    years, 32 …, of any size), or whose month position holds a word that is not a listed month
    word (with or without a day, with or without keyword), does not parse to a valid date —
    for every letter case, spacing and numeric value. -/
theorem rejects (x : Sentence) (hx : NearMiss x) (gt : List (Nat × Str)) (e : Nat)
    (htok : gt.map (·.2) = x.tokens) (hgap : GapsOK gt) :
    (parseDateRange (render gt e)).isValid = false := by
  rw [x.parse (wf_of_nearMiss hx) gt e htok hgap]
  simp [DateRange.isValid, result_of_nearMiss hx]

/-- **A value without a final number is invalid — for every byte string.**  Whatever the value,
    if after `CleanSpace` it does not end in a digit (missing year: `5 Mar`, `abt`, `Mar`;
    trailing words: `5 Mar 1900 AD`, `1900 or so`; phrases; the empty string), neither the range
    pattern nor the date pattern can give it a year at the end, and the range is invalid. -/
theorem rejects_no_final_digit (s : Str) (h : endsWithDigit (cleanSpace s) = false) :
    (parseDateRange s).isValid = false := parseDateRange_no_digit h

theorem joinSp_last {toks : List Str} {t : Str} (h : toks.getLast? = some t) :
    ∃ pre, joinSp toks = pre ++ t := by
  induction toks with
  | nil => simp at h
  | cons a ts ih =>
    cases ts with
    | nil => simp at h; subst h; exact ⟨[], rfl⟩
    | cons b ts =>
      have h' : (b :: ts).getLast? = some t := by simpa [List.getLast?_cons_cons] using h
      obtain ⟨pre, e⟩ := ih h'
      exact ⟨a ++ 32 :: pre, by rw [joinSp_cons (by simp), e]; simp⟩

/-- the same for token sequences in any admissible spacing: if the last token does not end in a
    digit — a sentence whose year is missing, or with trailing text — the value is invalid -/
theorem rejects_no_final_number (gt : List (Nat × Str)) (e : Nat) (hgap : GapsOK gt)
    (hs : ∀ p ∈ gt, Solid p.2)
    (hlast : ∀ p, gt.getLast? = some p → endsWithDigit p.2 = false) :
    (parseDateRange (render gt e)).isValid = false := by
  apply rejects_no_final_digit
  rw [cleanSpace_render gt e hgap hs]
  have hne : gt ≠ [] := by intro e'; rw [e'] at hgap; exact hgap
  obtain ⟨p, hp⟩ : ∃ p, gt.getLast? = some p := ⟨gt.getLast hne, List.getLast?_eq_some_getLast hne⟩
  have hl : (gt.map (·.2)).getLast? = some p.2 := by simp [List.getLast?_map, hp]
  obtain ⟨pre, e1⟩ := joinSp_last hl
  have hp2 := hlast p hp
  have hpne : p.2 ≠ [] := (hs p (List.mem_of_getLast? hp)).1
  rw [e1]
  unfold endsWithDigit at hp2 ⊢
  rw [List.getLast?_append]
  cases hq : p.2.getLast? with
  | none => simp [List.getLast?_eq_none_iff] at hq; exact absurd hq hpne
  | some b => rw [hq] at hp2; simpa using hp2

/-- every token of a sentence is distinct from the and-words, given that its keyword is a listed
    keyword and its month-position word is not an and-word -/
theorem notAnd_tokens {x : Sentence} (hkw : ∀ T, x.kw = some T → ∃ k ∈ keywords, CaseVariant k T)
    (hword : ∀ M, x.body.word = some M → NotAnd M) : ∀ t ∈ x.tokens, NotAnd t := by
  intro t ht
  simp only [Sentence.tokens, List.mem_append, Option.mem_toList] at ht
  rcases ht with ht | ht
  · obtain ⟨k, hk, hv⟩ := hkw t ht
    intro aw haw e
    exact and_not_keyword aw haw k (keywords_listed k hk) (e.trans hv)
  · cases hb : x.body with
    | Y yz y =>
      rw [hb] at ht; simp [Body.tokens] at ht; subst ht
      exact notAnd_of_isDigits (isDigits_numeral _ _)
    | MY M yz y =>
      rw [hb] at ht; simp [Body.tokens] at ht
      rcases ht with rfl | rfl
      · exact hword _ (by rw [hb]; rfl)
      · exact notAnd_of_isDigits (isDigits_numeral _ _)
    | DMY dz d M yz y =>
      rw [hb] at ht; simp [Body.tokens] at ht
      rcases ht with rfl | rfl | rfl
      · exact notAnd_of_isDigits (isDigits_numeral _ _)
      · exact hword _ (by rw [hb]; rfl)
      · exact notAnd_of_isDigits (isDigits_numeral _ _)
    | ZMY dz M yz y =>
      rw [hb] at ht
      simp only [Body.tokens, List.mem_cons, List.not_mem_nil, or_false] at ht
      rcases ht with rfl | rfl | rfl
      · exact notAnd_of_isDigits (isDigits_zeros _)
      · exact hword _ (by rw [hb]; rfl)
      · exact notAnd_of_isDigits (isDigits_numeral _ _)

/-- **A near miss at either end invalidates a range.**  `B X A Y` where `X` and `Y` are each a
    documented sentence or a near miss (day 0 / beyond the month / unknown month word) and at
    least one of them is a near miss — provided the month-position word of `Y` is not itself an
    and-word — is not a valid range. -/
theorem rejects_in_range (BW AW : Str)
    (hbw : ∃ k ∈ Generated.wordsBetween, CaseVariant k BW)
    (haw : ∃ k ∈ Generated.wordsAnd, CaseVariant k AW)
    (x1 x2 : Sentence) (h1 : Documented x1 ∨ NearMiss x1) (h2 : Documented x2 ∨ NearMiss x2)
    (hbad : NearMiss x1 ∨ NearMiss x2) (hword : ∀ M, x2.body.word = some M → NotAnd M)
    (gt : List (Nat × Str)) (e : Nat)
    (htok : gt.map (·.2) = BW :: x1.tokens ++ AW :: x2.tokens) (hgap : GapsOK gt) :
    (parseDateRange (render gt e)).isValid = false := by
  obtain ⟨kb, hkb, hvb⟩ := hbw
  obtain ⟨ka, hka, hva⟩ := haw
  have wf1 : x1.WF := h1.elim wf_of_documented wf_of_nearMiss
  have wf2 : x2.WF := h2.elim wf_of_documented wf_of_nearMiss
  have hkw2 : ∀ T, x2.kw = some T → ∃ k ∈ keywords, CaseVariant k T := h2.elim (·.kw) (·.kw)
  rw [range_parse x1 x2 wf1 wf2 (notAnd_tokens hkw2 hword)
    ⟨kb, between_listed kb hkb, hvb⟩ ⟨ka, and_listed ka hka, hva⟩ gt e htok hgap]
  rcases hbad with hb | hb
  · simp [DateRange.isValid, result_of_nearMiss hb]
  · simp [DateRange.isValid, result_of_nearMiss hb]

/-! ## printing and parsing back -/

theorem is_self (d : PDate) : d.is d = true := by simp [PDate.is]

/-- **Printing gives the canonical spelling.**  A documented single-date sentence, however it was
    written, is printed by both `DateRange.String` and `DateNode.String` as its canonical
    sentence: `Abt.`/`Aft.`/`Bef.` (as `DateConstraint.String` spells the constraint) or nothing,
    day without leading zeros, the month as `Date.String` abbreviates it, the year without leading
    zeros, single spaces. -/
theorem prints_canonical (x : Sentence) (hx : Documented x) (gt : List (Nat × Str)) (e : Nat)
    (htok : gt.map (·.2) = x.tokens) (hgap : GapsOK gt) :
    (parseDateRange (render gt e)).toString = (canon (meaning x)).str ∧
    dateNodeToString (parseDateRange (render gt e)) = (canon (meaning x)).str := by
  obtain ⟨h1, h2, hv⟩ := single_forms x hx gt e htok hgap
  obtain ⟨hp, _⟩ := parsed_of_valid hv
  rw [h1] at hp
  have hy : 1 ≤ (meaning x).year := hx.year.1
  unfold DateRange.toString dateNodeToString
  rw [h1, h2]
  rw [if_pos (is_self _), toString_eq hp hy]
  exact ⟨rfl, rfl⟩

/-- **`DateNode.String` round trip.**  For *every* string `s` whatsoever whose parse is valid and
    has a year at both ends (years 1.. — the documented domain; `Mar 0` is accepted by the code
    and prints as `Mar`): parsing what `DateNode.String` prints gives back exactly the same
    start and end dates (day, month, year, constraint). -/
theorem canonical_node (s : Str) (hv : (parseDateRange s).isValid = true)
    (hy1 : 1 ≤ (parseDateRange s).start.year) (hy2 : 1 ≤ (parseDateRange s).end_.year) :
    (parseDateRange (dateNodeToString (parseDateRange s))).start = (parseDateRange s).start ∧
    (parseDateRange (dateNodeToString (parseDateRange s))).end_ = (parseDateRange s).end_ := by
  obtain ⟨hp1, hp2⟩ := parsed_of_valid hv
  unfold dateNodeToString
  split
  · next his =>
    have e := eq_of_is his hp1.err hp2.err
    have := parse_toString hp1 hy1
    rw [← e]; exact this
  · exact parse_rangeText hp1 hp2 hy1 hy2

/-- **`DateRange.String` round trip.**  For *every* string `s` whatsoever whose parse is valid and
    has a year at both ends: parsing what `DateRange.String` prints gives back exactly the same
    start and end dates (day, month, year, constraint).  No guard: since the repair
    (fixes/C04-range-string-uses-is.patch) `DateRange.String` prints one date only when both ends
    are the same date. -/
theorem canonical (s : Str) (hv : (parseDateRange s).isValid = true)
    (hy1 : 1 ≤ (parseDateRange s).start.year) (hy2 : 1 ≤ (parseDateRange s).end_.year) :
    (parseDateRange (parseDateRange s).toString).start = (parseDateRange s).start ∧
    (parseDateRange (parseDateRange s).toString).end_ = (parseDateRange s).end_ := by
  obtain ⟨hp1, hp2⟩ := parsed_of_valid hv
  unfold DateRange.toString
  split
  · next his =>
    have e := eq_of_is his hp1.err hp2.err
    have := parse_toString hp1 hy1
    rw [← e]; exact this
  · exact parse_rangeText hp1 hp2 hy1 hy2

/-- `DateRange.String` as it was *before* the repair: "one date or two" decided with the
    constraint-aware `Equals`.  Not part of the model; kept only for the regression witness below. -/
def toStringOld (r : DateRange) : Str :=
  if r.start.equals r.end_ then r.start.toString else rangeText r.start r.end_

/-- **Regression witness (old rule, not the code any more).**  With the old `Equals` test the valid
    forward range `bet Aft. 1850 and 1900` printed as `Aft. 1850`, which parses to a range ending
    at `Aft. 1850` instead of `1900`; the repaired printer gives both ends and `canonical` applies.
    The harness replays the same sentence on the implementation, so reverting the repair is
    reported with this input. -/
theorem canonical_old_rule_witness :
    (parseDateRange (lit "bet Aft. 1850 and 1900")).isValid = true ∧
    toStringOld (parseDateRange (lit "bet Aft. 1850 and 1900")) = lit "Aft. 1850" ∧
    (parseDateRange (toStringOld (parseDateRange (lit "bet Aft. 1850 and 1900")))).end_ ≠
      (parseDateRange (lit "bet Aft. 1850 and 1900")).end_ ∧
    (parseDateRange (lit "bet Aft. 1850 and 1900")).toString = lit "Bet. Aft. 1850 and 1900" := by
  decide

/-- spacing is unbounded since the repair fixes/C04-cleanspace-all-runs.patch (`CleanSpace` repeats
    its pass until no double space is left; with the former two passes a run of five spaces was
    left at two and `abt     1900` was invalid) — a concrete instance of `single_forms`, by
    evaluation -/
example : (parseDateRange (lit "abt     1900")).start = ⟨0, 0, 1900, .about, false⟩ ∧
    (parseDateRange (lit "  bet   1850             and     Bef.      3  Sep   1900   ")).end_ =
      ⟨3, 9, 1900, .before, false⟩ := by decide

/-! ## non-vacuity: concrete sentences that meet the hypotheses (tests, not properties) -/

/-- `aBt.   07  MARCH 0089 ` -/
def ex1 : Sentence := ⟨some (lit "aBt."), .DMY 1 7 (lit "MARCH") 2 89⟩

theorem ex1_documented : Documented ex1 where
  kw := by intro T hT; injection hT with hT; subst hT; exact ⟨lit "Abt.", by decide, by decide⟩
  month := by
    intro M hM; injection hM with hM; subst hM
    exact ⟨(lit "march", 3), by decide, by decide⟩
  year := by decide
  day := by
    show ∀ m, monthOfWord (lit "MARCH") = some m → 1 ≤ 7 ∧ ((7 : Nat) : Int) ≤ dim (isLeap ((89 : Nat) : Int)) m
    intro m hm
    have : monthOfWord (lit "MARCH") = some 3 := by decide
    rw [this] at hm; injection hm with hm; subst hm; decide

example : ex1.tokens = [lit "aBt.", lit "07", lit "MARCH", lit "0089"] := by decide
example : meaning ex1 = ⟨7, 3, 89, .about, false⟩ := by decide
example : (canon (meaning ex1)).str = lit "Abt. 7 Mar 89" := by decide
/-- the general theorem instantiated, and the same fact by direct evaluation of the model -/
example :
    (parseDateRange (render [(2, lit "aBt."), (3, lit "07"), (2, lit "MARCH"), (1, lit "0089")] 1)).start
      = ⟨7, 3, 89, .about, false⟩ :=
  (single_forms ex1 ex1_documented _ 1 (by decide) (by simp [GapsOK])).1
example : parseDateRange (lit "  aBt.   07  MARCH 0089 ") =
    ⟨⟨7, 3, 89, .about, false⟩, ⟨7, 3, 89, .about, false⟩, lit "  aBt.   07  MARCH 0089 "⟩ := by decide

/-- `31 apr 1900`: a near miss (April has 30 days) -/
def ex2 : Sentence := ⟨none, .DMY 0 31 (lit "apr") 0 1900⟩
theorem ex2_nearMiss : NearMiss ex2 where
  kw := by intro T hT; cases hT
  word := by
    intro M hM; injection hM with hM; subst hM
    exact ⟨by decide, by decide, by intro m0 M' h; injection h with h _; subst h; decide⟩
  first := by intro _ M yz y h; cases h
  year := by decide
  bad := by
    show 1 ≤ 31 ∧ (monthOfWord (lit "apr") = none ∨
      ∃ m, monthOfWord (lit "apr") = some m ∧ dim (isLeap ((1900 : Nat) : Int)) m < ((31 : Nat) : Int))
    exact ⟨by decide, Or.inr ⟨4, by decide, by decide⟩⟩
example : (parseDateRange (lit "31 apr 1900")).isValid = false := by decide
example : (parseDateRange (lit "29 Feb 1900")).isValid = false ∧
    (parseDateRange (lit "29 Feb 2000")).isValid = true ∧
    (parseDateRange (lit "Foo 1850")).isValid = false ∧
    (parseDateRange (lit "5 Mar")).isValid = false := by decide

/-- ranges, the repaired keyword forms of defect 4, and the round trip on a concrete value -/
example : parseDateRange (lit "FROM bef 3 Sep 1850 TO circa 1900") =
    ⟨⟨3, 9, 1850, .before, false⟩, ⟨0, 0, 1900, .about, false⟩, lit "FROM bef 3 Sep 1850 TO circa 1900"⟩ := by
  decide
example : (parseDateRange (lit "abt 1983")).start = ⟨0, 0, 1983, .about, false⟩ ∧
    (parseDateRange (lit "BEF 1900")).start = ⟨0, 0, 1900, .before, false⟩ ∧
    (parseDateRange (lit "after 1850")).start = ⟨0, 0, 1850, .after, false⟩ := by decide
example : dateNodeToString (parseDateRange (lit "FROM bef 3 Sep 1850 TO circa 1900")) =
    lit "Bet. Bef. 3 Sep 1850 and Abt. 1900" := by decide

end Gedcom.C04
