/-
  C12, the date-similarity clauses on the float64 values themselves: `DateRange.Similarity`
  as the binary64 model (Model/Float64.lean) computes it — bit for bit what the implementation
  returns, tied by the `datesimf` request — lies in [0,1], does not depend on operand order, is
  1 for equal `Years()` values, never increases as the distance grows and is 0 from the
  configured maximum on.  The argument is monotonicity of round-to-nearest-even.

  Proof module (Mathlib tactics over ℚ); the model and the integer lemmas are core Lean.
-/
import Gedcom.Props.C05Float
import Gedcom.Model.Float64Jaro
import Gedcom.Lemmas.JaroSymm
namespace Gedcom.C12F
open Gedcom Gedcom.F64 Gedcom.C05

/-- rounding to the nearest integer (ties to even) is monotone in the fraction, at one scale -/
theorem roundDiv_mono (n d n' d' k : Nat) (hd : 0 < d) (hd' : 0 < d') (h : n * d' ≤ n' * d) :
    roundDiv n d k ≤ roundDiv n' d' k := by
  by_contra hc
  have hab : roundDiv n' d' k + 1 ≤ roundDiv n d k := by omega
  obtain ⟨_, ha2⟩ := roundDiv_err n d k hd
  obtain ⟨hb1, _⟩ := roundDiv_err n' d' k hd'
  obtain ⟨hta, _⟩ := roundDiv_tie_even n d k hd
  obtain ⟨_, htb⟩ := roundDiv_tie_even n' d' k hd'
  generalize roundDiv n d k = a at *
  generalize roundDiv n' d' k = b at *
  have hdq : (0 : ℚ) < d := by exact_mod_cast hd
  have hdq' : (0 : ℚ) < d' := by exact_mod_cast hd'
  have ha2q : (2 : ℚ) * (a * d) ≤ 2 * (n * 2 ^ k) + d := by exact_mod_cast ha2
  have hb1q : (2 : ℚ) * (n' * 2 ^ k) ≤ 2 * (b * d') + d' := by exact_mod_cast hb1
  have habq : (b : ℚ) + 1 ≤ a := by exact_mod_cast hab
  have hq : (n : ℚ) * d' ≤ n' * d := by exact_mod_cast h
  -- X = n 2^k / d and Y = n' 2^k / d'
  have hXY : (n : ℚ) * 2 ^ k / d ≤ n' * 2 ^ k / d' := by
    rw [div_le_div_iff₀ hdq hdq']
    have hp : (0 : ℚ) ≤ 2 ^ k := by positivity
    nlinarith [mul_le_mul_of_nonneg_right hq hp]
  have hX : (a : ℚ) - 1 / 2 ≤ n * 2 ^ k / d := by
    rw [le_div_iff₀ hdq]; linarith
  have hY : (n' : ℚ) * 2 ^ k / d' ≤ b + 1 / 2 := by
    rw [div_le_iff₀ hdq']; linarith
  -- the chain closes up: both are ties
  have hXe : (n : ℚ) * 2 ^ k / d = a - 1 / 2 := by linarith
  have hYe : (n' : ℚ) * 2 ^ k / d' = b + 1 / 2 := by linarith
  have e1 : 2 * (a * d) = 2 * (n * 2 ^ k) + d := by
    have : (2 : ℚ) * (a * d) = 2 * (n * 2 ^ k) + d := by
      have := (div_eq_iff hdq.ne').mp hXe; linarith
    exact_mod_cast this
  have e2 : 2 * (n' * 2 ^ k) = 2 * (b * d') + d' := by
    have : (2 : ℚ) * (n' * 2 ^ k) = 2 * (b * d') + d' := by
      have := (div_eq_iff hdq'.ne').mp hYe; linarith
    exact_mod_cast this
  have pa := hta e1
  have pb := htb e2
  have : a = b + 1 := by
    have : (a : ℚ) = b + 1 := by linarith
    exact_mod_cast this
  omega

/-- **Round-to-nearest-even is monotone**: a smaller fraction never rounds to a larger binary64 -/
theorem rnd_mono (n d n' d' : Nat) (hd : 0 < d) (hd' : 0 < d') (h : n * d' ≤ n' * d) :
    F64.le (rnd n d) (rnd n' d') := by
  unfold F64.le
  by_cases hn : n = 0
  · subst hn; simp [rnd]
  have hn' : n' ≠ 0 := by
    intro e; subst e
    have : n * d' = 0 := by omega
    rcases Nat.mul_eq_zero.mp this with h0 | h0 <;> omega
  unfold rnd; rw [if_neg hn, if_neg hn']; simp only
  -- the scale of the smaller value is at least the scale of the larger one
  have hk : fracBits n' d' ≤ fracBits n d := by
    rcases fracBits_ok_or n d with hP | h1100
    · apply fracBits_le
      have h1 : 2 ^ 52 * d' * d ≤ n' * 2 ^ fracBits n d * d := by
        calc 2 ^ 52 * d' * d = 2 ^ 52 * d * d' := by ring
          _ ≤ n * 2 ^ fracBits n d * d' := Nat.mul_le_mul_right _ hP
          _ = n * d' * 2 ^ fracBits n d := by ring
          _ ≤ n' * d * 2 ^ fracBits n d := Nat.mul_le_mul_right _ h
          _ = n' * 2 ^ fracBits n d * d := by ring
      exact Nat.le_of_mul_le_mul_right h1 hd
    · rw [h1100]; exact fracBits_bound _ _
  rcases Nat.eq_or_lt_of_le hk with heq | hlt
  · rw [heq]
    exact Nat.mul_le_mul_right _ (roundDiv_mono n d n' d' _ hd hd' h)
  · -- different binades: the smaller value is at most 2^53 units, the larger at least 2^52
    generalize hkx : fracBits n d = kx at *
    generalize hky : fracBits n' d' = ky at *
    have hmin := fracBits_min n d (kx - 1) (by omega)
    have hrx : roundDiv n d kx ≤ 2 ^ 53 := by
      have h1 : n * 2 ^ (kx - 1) < 2 ^ 52 * d := by omega
      have h2 : n * 2 ^ kx < 2 ^ 53 * d := by
        have : kx = (kx - 1) + 1 := by omega
        rw [this, Nat.pow_succ]
        calc n * (2 ^ (kx - 1) * 2) = n * 2 ^ (kx - 1) * 2 := by ring
          _ < 2 ^ 52 * d * 2 := Nat.mul_lt_mul_of_pos_right h1 (by omega)
          _ = 2 ^ 53 * d := by ring
      have h3 : n * 2 ^ kx / d < 2 ^ 53 := (Nat.div_lt_iff_lt_mul hd).mpr h2
      have := (roundDiv_floor n d kx).2
      omega
    have hry : 2 ^ 52 ≤ roundDiv n' d' ky := by
      rcases fracBits_ok_or n' d' with hP | h1100
      · rw [hky] at hP
        have h3 : 2 ^ 52 ≤ n' * 2 ^ ky / d' := (Nat.le_div_iff_mul_le hd').mpr hP
        have := (roundDiv_floor n' d' ky).1
        omega
      · have := fracBits_bound n d; omega
    calc roundDiv n d kx * 2 ^ ky ≤ 2 ^ 53 * 2 ^ ky := Nat.mul_le_mul_right _ hrx
      _ = 2 ^ 52 * 2 ^ (ky + 1) := by rw [Nat.pow_succ]; ring
      _ ≤ 2 ^ 52 * 2 ^ kx := Nat.mul_le_mul_left _ (Nat.pow_le_pow_right (by omega) (by omega))
      _ ≤ roundDiv n' d' ky * 2 ^ kx := Nat.mul_le_mul_right _ hry

/-- **The model rounds to binary64**: inside the domain (a positive value below 2^53, denominator
    below 2^1000) the result has exactly 53 significant bits (`2^52 ≤ mant ≤ 2^53`, the upper end
    being the next power of two), and by `rnd_err` it is within half a unit in the last place. -/
theorem rnd_53_bits (n d : Nat) (hn : 0 < n) (hd : 0 < d) (hd' : d ≤ 2 ^ 1000)
    (hdom : n < 2 ^ 53 * d) :
    2 ^ 52 ≤ (rnd n d).mant ∧ (rnd n d).mant ≤ 2 ^ 53 := by
  unfold rnd; rw [if_neg (by omega)]; simp only
  have hP := fracBits_ok n d hn hd'
  generalize hk : fracBits n d = k at *
  have hfl := roundDiv_floor n d k
  constructor
  · have : 2 ^ 52 ≤ n * 2 ^ k / d := (Nat.le_div_iff_mul_le hd).mpr hP
    omega
  · by_cases hk0 : k = 0
    · subst hk0
      have : n * 2 ^ 0 / d < 2 ^ 53 := (Nat.div_lt_iff_lt_mul hd).mpr (by simpa using hdom)
      omega
    · have hmin := fracBits_min n d (k - 1) (by omega)
      have h1 : n * 2 ^ (k - 1) < 2 ^ 52 * d := by omega
      have h2 : n * 2 ^ k < 2 ^ 53 * d := by
        have : k = (k - 1) + 1 := by omega
        rw [this, Nat.pow_succ]
        calc n * (2 ^ (k - 1) * 2) = n * 2 ^ (k - 1) * 2 := by ring
          _ < 2 ^ 52 * d * 2 := Nat.mul_lt_mul_of_pos_right h1 (by omega)
          _ = 2 ^ 53 * d := by ring
      have : n * 2 ^ k / d < 2 ^ 53 := (Nat.div_lt_iff_lt_mul hd).mpr h2
      omega

theorem le_trans' {a b c : Dbl} (h1 : F64.le a b) (h2 : F64.le b c) : F64.le a c := by
  rw [le_iff_toQ] at *; exact le_trans h1 h2

theorem rnd_one : rnd 1 1 = ⟨2 ^ 52, 52⟩ := by decide

theorem zero_le (a : Dbl) : F64.le ⟨0, 0⟩ a := by unfold F64.le; simp

/-- the operand order of the subtraction does not matter -/
theorem absdiff_comm (a b : Dbl) : absdiff a b = absdiff b a := by
  unfold absdiff
  simp only []
  rw [Nat.add_comm b.frac a.frac]
  congr 1
  split <;> split <;> omega

/-- **Operand order**: the float64 date similarity is symmetric, bit for bit -/
theorem dateSimilarity_symm (l r m : Dbl) : dateSimilarity l r m = dateSimilarity r l m := by
  unfold dateSimilarity; rw [absdiff_comm]

/-- **Depends only on the distance**: the similarity is a function of `|left - right|` as the
    float64 subtraction returns it -/
theorem dateSimilarity_of_distance (l r l' r' m : Dbl) (h : absdiff l r = absdiff l' r') :
    dateSimilarity l r m = dateSimilarity l' r' m := by
  unfold dateSimilarity; rw [h]

/-- `1 - p` never exceeds one -/
theorem oneMinus_le_one (p : Dbl) : F64.le (oneMinus p) one := by
  have h1 : F64.le (oneMinus p) (rnd 1 1) := by
    unfold oneMinus
    apply rnd_mono _ _ _ _ (Nat.two_pow_pos _) (by omega)
    simp
  refine le_trans' h1 ?_
  rw [rnd_one]; unfold F64.le one; simp

/-- **Bounds**: the float64 date similarity lies in [0, 1] -/
theorem simOfDist_bounds (d m : Dbl) : F64.le ⟨0, 0⟩ (simOfDist d m) ∧ F64.le (simOfDist d m) one := by
  refine ⟨zero_le _, ?_⟩
  unfold simOfDist
  simp only []
  split
  · unfold F64.le one; simp
  · exact oneMinus_le_one _

theorem dateSimilarity_bounds (l r m : Dbl) :
    F64.le ⟨0, 0⟩ (dateSimilarity l r m) ∧ F64.le (dateSimilarity l r m) one :=
  simOfDist_bounds _ _

/-- **Identity**: equal `Years()` values have similarity exactly one -/
theorem dateSimilarity_self (l m : Dbl) :
    F64.le one (dateSimilarity l l m) ∧ F64.le (dateSimilarity l l m) one := by
  refine ⟨?_, (dateSimilarity_bounds l l m).2⟩
  have h0 : absdiff l l = ⟨0, 0⟩ := by unfold absdiff; simp [rnd]
  unfold dateSimilarity simOfDist
  rw [h0]
  have h1 : div ⟨0, 0⟩ m = ⟨0, 0⟩ := by simp [div, rnd]
  simp only [h1]
  have h2 : mul ⟨0, 0⟩ ⟨0, 0⟩ = ⟨0, 0⟩ := by simp [mul, rnd]
  rw [h2]
  have h3 : ¬ F64.lt one ⟨0, 0⟩ := by unfold F64.lt one; simp
  rw [if_neg h3]
  have h4 : oneMinus ⟨0, 0⟩ = rnd 1 1 := by simp [oneMinus]
  rw [h4, rnd_one]; unfold F64.le one; simp

/-- division by a positive maximum is monotone in the dividend -/
theorem div_mono (a b m : Dbl) (hm : 0 < m.mant) (h : F64.le a b) : F64.le (div a m) (div b m) := by
  unfold div
  apply rnd_mono _ _ _ _ (Nat.mul_pos hm (Nat.two_pow_pos _)) (Nat.mul_pos hm (Nat.two_pow_pos _))
  unfold F64.le at h
  calc a.mant * 2 ^ m.frac * (m.mant * 2 ^ b.frac)
      = (a.mant * 2 ^ b.frac) * (m.mant * 2 ^ m.frac) := by ring
    _ ≤ (b.mant * 2 ^ a.frac) * (m.mant * 2 ^ m.frac) := Nat.mul_le_mul_right _ h
    _ = b.mant * 2 ^ m.frac * (m.mant * 2 ^ a.frac) := by ring

/-- squaring is monotone -/
theorem sq_mono (a b : Dbl) (h : F64.le a b) : F64.le (mul a a) (mul b b) := by
  unfold mul
  apply rnd_mono _ _ _ _ (Nat.two_pow_pos _) (Nat.two_pow_pos _)
  unfold F64.le at h
  calc a.mant * a.mant * 2 ^ (b.frac + b.frac)
      = (a.mant * 2 ^ b.frac) * (a.mant * 2 ^ b.frac) := by rw [Nat.pow_add]; ring
    _ ≤ (b.mant * 2 ^ a.frac) * (b.mant * 2 ^ a.frac) := Nat.mul_le_mul h h
    _ = b.mant * b.mant * 2 ^ (a.frac + a.frac) := by rw [Nat.pow_add]; ring

/-- `1 - p` is antitone on values up to one -/
theorem oneMinus_anti (p q : Dbl) (h : F64.le p q) (hq : F64.le q one) :
    F64.le (oneMinus q) (oneMinus p) := by
  have hp : F64.le p one := le_trans' h hq
  unfold oneMinus
  apply rnd_mono _ _ _ _ (Nat.two_pow_pos _) (Nat.two_pow_pos _)
  unfold F64.le one at *
  simp only [Nat.pow_zero, Nat.mul_one, Nat.one_mul] at hp hq
  rw [Nat.sub_mul, Nat.sub_mul]
  have e : 2 ^ q.frac * 2 ^ p.frac = 2 ^ p.frac * 2 ^ q.frac := Nat.mul_comm _ _
  generalize 2 ^ q.frac * 2 ^ p.frac = A at *
  generalize 2 ^ p.frac * 2 ^ q.frac = B at *
  generalize q.mant * 2 ^ p.frac = C at *
  generalize p.mant * 2 ^ q.frac = E at *
  omega

/-- **Never increases with the distance**: a larger float64 distance never gives a larger
    similarity (for a positive maximum) -/
theorem simOfDist_anti (d d' m : Dbl) (hm : 0 < m.mant) (h : F64.le d d') :
    F64.le (simOfDist d' m) (simOfDist d m) := by
  have hq := div_mono d d' m hm h
  have hp := sq_mono _ _ hq
  unfold simOfDist
  simp only []
  generalize mul (div d m) (div d m) = p at *
  generalize mul (div d' m) (div d' m) = p' at *
  by_cases h1 : F64.lt one p'
  · rw [if_pos h1]; exact zero_le _
  · rw [if_neg h1]
    have hp'1 : F64.le p' one := by
      rw [le_iff_toQ]; rw [lt_iff_toQ] at h1; exact not_lt.mp h1
    have h2 : ¬ F64.lt one p := by
      rw [lt_iff_toQ]; rw [le_iff_toQ] at hp hp'1
      exact not_lt.mpr (le_trans hp hp'1)
    rw [if_neg h2]
    exact oneMinus_anti p p' hp hp'1

/-- **Zero from the maximum on**: when the float64 distance reaches the configured maximum the
    similarity is exactly zero -/
theorem simOfDist_zero (d m : Dbl) (hm : 0 < m.mant) (h : F64.le m d) :
    simOfDist d m = ⟨0, 0⟩ := by
  have hq : F64.le (rnd 1 1) (div d m) := by
    unfold div
    apply rnd_mono _ _ _ _ (by omega) (Nat.mul_pos hm (Nat.two_pow_pos _))
    unfold F64.le at h
    simpa [Nat.mul_comm] using h
  have hq1 : F64.le one (div d m) := by
    refine le_trans' ?_ hq; rw [rnd_one]; unfold F64.le one; simp
  have hp : F64.le (rnd 1 1) (mul (div d m) (div d m)) := by
    unfold mul
    apply rnd_mono _ _ _ _ (by omega) (Nat.two_pow_pos _)
    unfold F64.le one at hq1
    simp only [Nat.pow_zero, Nat.mul_one, Nat.one_mul] at hq1
    rw [Nat.one_mul, Nat.mul_one, Nat.pow_add]
    exact Nat.mul_le_mul hq1 hq1
  have hp1 : F64.le one (mul (div d m) (div d m)) := by
    refine le_trans' ?_ hp; rw [rnd_one]; unfold F64.le one; simp
  unfold simOfDist
  simp only []
  generalize mul (div d m) (div d m) = p at *
  split
  · rfl
  · rename_i hnot
    -- p is exactly one: 1 - p is the rounding of zero
    have hle : p.mant ≤ 2 ^ p.frac := by
      unfold F64.lt one at hnot; simp at hnot; exact hnot
    have hge : 2 ^ p.frac ≤ p.mant := by
      unfold F64.le one at hp1; simpa using hp1
    have : 2 ^ p.frac - p.mant = 0 := by omega
    unfold oneMinus; rw [this]; simp [rnd]

/-! ### `jaro` on the float64 values -/

theorem add_comm' (a b : Dbl) : add a b = add b a := by
  unfold add
  rw [Nat.add_comm (a.mant * 2 ^ b.frac), Nat.add_comm a.frac]

theorem jaroValueF_comm (m h la lb : Nat) : jaroValueF m h la lb = jaroValueF m h lb la := by
  unfold jaroValueF
  simp only []
  rw [add_comm' (div (ofNat m) (ofNat la))]

/-- **Operand order**: the float64 Jaro value is the same in both directions, bit for bit (the
    matching is symmetric — `jaro_symm` — and float64 addition is commutative) -/
theorem jaroF_symm (a b : Str) : jaroF a b = jaroF b a := by
  have h1 := Sim.jaroFinal_pairs a b
  have h2 := Sim.jaroFinal_pairs b a
  have hp := Sim.jaroPairs_swap a b
  unfold jaroF
  simp only
  rw [h1.1, h1.2, h2.1, h2.2, hp.length_eq, List.length_map]
  have : Sim.offDiag (Sim.jaroPairs b a) = Sim.offDiag (Sim.jaroPairs a b) := by
    rw [← Sim.offDiag_swap (Sim.jaroPairs a b)]
    unfold Sim.offDiag
    exact hp.countP_eq _
  rw [this]
  exact jaroValueF_comm _ _ _ _

/-- the value of a binary64 is at most the natural number `k` -/
def leNat (x : Dbl) (k : Nat) : Prop := x.mant ≤ k * 2 ^ x.frac

/-- a positive natural number below 2^53·… rounds to itself -/
theorem rnd_nat (k : Nat) (hk : 0 < k) :
    rnd k 1 = ⟨k * 2 ^ fracBits k 1, fracBits k 1⟩ := by
  unfold rnd roundDiv
  rw [if_neg (by omega)]
  simp [Nat.mod_one]

theorem rnd_leNat (n d k : Nat) (hd : 0 < d) (h : n ≤ k * d) : leNat (rnd n d) k := by
  by_cases hk : k = 0
  · subst hk
    have : n = 0 := by omega
    subst this; simp [rnd, leNat]
  have hm := rnd_mono n d k 1 hd (by omega) (by simpa using h)
  rw [rnd_nat k (by omega)] at hm
  unfold F64.le at hm
  simp only at hm
  unfold leNat
  have h2 : (rnd n d).mant * 2 ^ fracBits k 1 ≤ k * 2 ^ (rnd n d).frac * 2 ^ fracBits k 1 := by
    calc (rnd n d).mant * 2 ^ fracBits k 1 ≤ k * 2 ^ fracBits k 1 * 2 ^ (rnd n d).frac := hm
      _ = k * 2 ^ (rnd n d).frac * 2 ^ fracBits k 1 := by ring
  exact Nat.le_of_mul_le_mul_right h2 (Nat.two_pow_pos _)

theorem rnd_geNat (n d k : Nat) (hd : 0 < d) (h : k * d ≤ n) : k * 2 ^ (rnd n d).frac ≤ (rnd n d).mant := by
  by_cases hk : k = 0
  · subst hk; simp
  have hm := rnd_mono k 1 n d (by omega) hd (by simpa using h)
  rw [rnd_nat k (by omega)] at hm
  unfold F64.le at hm
  simp only at hm
  have h2 : k * 2 ^ (rnd n d).frac * 2 ^ fracBits k 1 ≤ (rnd n d).mant * 2 ^ fracBits k 1 := by
    calc k * 2 ^ (rnd n d).frac * 2 ^ fracBits k 1
        = k * 2 ^ fracBits k 1 * 2 ^ (rnd n d).frac := by ring
      _ ≤ (rnd n d).mant * 2 ^ fracBits k 1 := hm
  exact Nat.le_of_mul_le_mul_right h2 (Nat.two_pow_pos _)

theorem div_nat_leNat (m l : Nat) (hl : 0 < l) (h : m ≤ l) : leNat (div (ofNat m) (ofNat l)) 1 := by
  unfold div ofNat
  apply rnd_leNat _ _ _ (by simpa using hl)
  simpa using h

theorem add_leNat (a b : Dbl) (j k : Nat) (ha : leNat a j) (hb : leNat b k) :
    leNat (add a b) (j + k) := by
  unfold add
  apply rnd_leNat _ _ _ (Nat.two_pow_pos _)
  unfold leNat at ha hb
  rw [Nat.pow_add]
  calc a.mant * 2 ^ b.frac + b.mant * 2 ^ a.frac
      ≤ j * 2 ^ a.frac * 2 ^ b.frac + k * 2 ^ b.frac * 2 ^ a.frac :=
        Nat.add_le_add (Nat.mul_le_mul_right _ ha) (Nat.mul_le_mul_right _ hb)
    _ = (j + k) * (2 ^ a.frac * 2 ^ b.frac) := by ring

/-- **Bounds**: the float64 Jaro value lies in [0, 1] -/
theorem jaroValueF_le_one (m h la lb : Nat) (ha : m ≤ la) (hb : m ≤ lb) :
    leNat (jaroValueF m h la lb) 1 := by
  unfold jaroValueF
  split
  · simp [leNat]
  · rename_i hm
    simp only []
    have h1 := div_nat_leNat m la (by omega) ha
    have h2 := div_nat_leNat m lb (by omega) hb
    have h3 := div_nat_leNat (m - h / 2) m (by omega) (by omega)
    have h4 := add_leNat _ _ 1 1 h1 h2
    have h5 := add_leNat _ _ 2 1 h4 h3
    generalize add (add (div (ofNat m) (ofNat la)) (div (ofNat m) (ofNat lb)))
      (div (ofNat (m - h / 2)) (ofNat m)) = t at *
    unfold div ofNat
    apply rnd_leNat _ _ _ (by positivity)
    unfold leNat at h5
    simp only [Nat.pow_zero, Nat.mul_one, Nat.one_mul]
    omega

theorem jaroF_bounds (a b : Str) : F64.le ⟨0, 0⟩ (jaroF a b) ∧ F64.le (jaroF a b) one := by
  refine ⟨zero_le _, ?_⟩
  have hinv := Sim.jaroFinal_inv a b
  have hb : (Sim.jaroFinal a b).nMatch ≤ b.length := by
    rw [hinv.cnt, ← hinv.len]; exact List.count_le_length
  have := jaroValueF_le_one (Sim.jaroFinal a b).nMatch (Sim.jaroFinal a b).nHalf a.length b.length
    hinv.idx hb
  unfold jaroF; simp only
  unfold leNat at this
  unfold F64.le one
  simpa using this

/-- **Identity**: a non-empty string compared with itself has float64 Jaro value exactly one -/
theorem jaroF_self (a : Str) (h : a ≠ []) : F64.le one (jaroF a a) ∧ F64.le (jaroF a a) one := by
  refine ⟨?_, (jaroF_bounds a a).2⟩
  have hl := Sim.jaroLoop_self a (Sim.matchRange a.length a.length) [] a rfl
  have hf : Sim.jaroFinal a a = ⟨List.replicate a.length true, a.length, 0⟩ := by
    unfold Sim.jaroFinal Sim.jaroInit
    simpa using hl
  have hpos : 0 < a.length := List.length_pos_iff.mpr h
  unfold jaroF
  simp only [hf]
  unfold jaroValueF
  rw [if_neg (by omega)]
  simp only [Nat.zero_div, Nat.sub_zero]
  generalize a.length = l at *
  -- every quotient l / l is at least one, the sum at least three, a third of it at least one
  have q1 : 1 * 2 ^ (div (ofNat l) (ofNat l)).frac ≤ (div (ofNat l) (ofNat l)).mant := by
    unfold div ofNat
    apply rnd_geNat _ _ _ (by simpa using hpos)
    simp
  generalize div (ofNat l) (ofNat l) = x at *
  have s2 : 2 * 2 ^ (add x x).frac ≤ (add x x).mant := by
    unfold add
    apply rnd_geNat _ _ _ (Nat.two_pow_pos _)
    rw [Nat.pow_add]
    calc 2 * (2 ^ x.frac * 2 ^ x.frac) = 1 * 2 ^ x.frac * 2 ^ x.frac + 1 * 2 ^ x.frac * 2 ^ x.frac := by ring
      _ ≤ x.mant * 2 ^ x.frac + x.mant * 2 ^ x.frac :=
        Nat.add_le_add (Nat.mul_le_mul_right _ q1) (Nat.mul_le_mul_right _ q1)
  generalize add x x = y at *
  have s3 : 3 * 2 ^ (add y x).frac ≤ (add y x).mant := by
    unfold add
    apply rnd_geNat _ _ _ (Nat.two_pow_pos _)
    rw [Nat.pow_add]
    calc 3 * (2 ^ y.frac * 2 ^ x.frac)
        = 2 * 2 ^ y.frac * 2 ^ x.frac + 1 * 2 ^ x.frac * 2 ^ y.frac := by ring
      _ ≤ y.mant * 2 ^ x.frac + x.mant * 2 ^ y.frac :=
        Nat.add_le_add (Nat.mul_le_mul_right _ s2) (Nat.mul_le_mul_right _ q1)
  generalize add y x = t at *
  have fin : 1 * 2 ^ (div t (ofNat 3)).frac ≤ (div t (ofNat 3)).mant := by
    unfold div ofNat
    apply rnd_geNat _ _ _ (by positivity)
    simp only [Nat.pow_zero, Nat.mul_one, Nat.one_mul]
    omega
  unfold F64.le one
  simpa using fin

end Gedcom.C12F
