/-
  C12, the date-similarity clauses on the float64 values themselves: `DateRange.Similarity`
  as the binary64 model (Model/Float64.lean) computes it — bit for bit what the implementation
  returns, tied by the `datesimf` request — lies in [0,1], does not depend on operand order, is
  1 for equal `Years()` values, never increases as the distance grows and is 0 from the
  configured maximum on.  The argument is monotonicity of round-to-nearest-even.

  Proof module (Mathlib tactics over ℚ); the model and the integer lemmas are core Lean.
-/
import Gedcom.Props.C05Float
import Gedcom.Model.Float64Jaro
import Gedcom.Lemmas.JaroSymm
import Gedcom.Lemmas.ListSymm
import Gedcom.Model.SimilaritySrcF
import Gedcom.Generated.SimilaritySrc
import Mathlib.Tactic.IntervalCases
namespace Gedcom.C12F
open Gedcom Gedcom.F64 Gedcom.C05

/-- rounding to the nearest integer (ties to even) is monotone in the fraction, at one scale -/
theorem roundDiv_mono (n d n' d' k : Nat) (hd : 0 < d) (hd' : 0 < d') (h : n * d' ≤ n' * d) :
    roundDiv n d k ≤ roundDiv n' d' k := by
  by_contra hc
  have hab : roundDiv n' d' k + 1 ≤ roundDiv n d k := by omega
  obtain ⟨_, ha2⟩ := roundDiv_err n d k hd
  obtain ⟨hb1, _⟩ := roundDiv_err n' d' k hd'
  obtain ⟨hta, _⟩ := roundDiv_tie_even n d k hd
  obtain ⟨_, htb⟩ := roundDiv_tie_even n' d' k hd'
  generalize roundDiv n d k = a at *
  generalize roundDiv n' d' k = b at *
  have hdq : (0 : ℚ) < d := by exact_mod_cast hd
  have hdq' : (0 : ℚ) < d' := by exact_mod_cast hd'
  have ha2q : (2 : ℚ) * (a * d) ≤ 2 * (n * 2 ^ k) + d := by exact_mod_cast ha2
  have hb1q : (2 : ℚ) * (n' * 2 ^ k) ≤ 2 * (b * d') + d' := by exact_mod_cast hb1
  have habq : (b : ℚ) + 1 ≤ a := by exact_mod_cast hab
  have hq : (n : ℚ) * d' ≤ n' * d := by exact_mod_cast h
  -- X = n 2^k / d and Y = n' 2^k / d'
  have hXY : (n : ℚ) * 2 ^ k / d ≤ n' * 2 ^ k / d' := by
    rw [div_le_div_iff₀ hdq hdq']
    have hp : (0 : ℚ) ≤ 2 ^ k := by positivity
    nlinarith [mul_le_mul_of_nonneg_right hq hp]
  have hX : (a : ℚ) - 1 / 2 ≤ n * 2 ^ k / d := by
    rw [le_div_iff₀ hdq]; linarith
  have hY : (n' : ℚ) * 2 ^ k / d' ≤ b + 1 / 2 := by
    rw [div_le_iff₀ hdq']; linarith
  -- the chain closes up: both are ties
  have hXe : (n : ℚ) * 2 ^ k / d = a - 1 / 2 := by linarith
  have hYe : (n' : ℚ) * 2 ^ k / d' = b + 1 / 2 := by linarith
  have e1 : 2 * (a * d) = 2 * (n * 2 ^ k) + d := by
    have : (2 : ℚ) * (a * d) = 2 * (n * 2 ^ k) + d := by
      have := (div_eq_iff hdq.ne').mp hXe; linarith
    exact_mod_cast this
  have e2 : 2 * (n' * 2 ^ k) = 2 * (b * d') + d' := by
    have : (2 : ℚ) * (n' * 2 ^ k) = 2 * (b * d') + d' := by
      have := (div_eq_iff hdq'.ne').mp hYe; linarith
    exact_mod_cast this
  have pa := hta e1
  have pb := htb e2
  have : a = b + 1 := by
    have : (a : ℚ) = b + 1 := by linarith
    exact_mod_cast this
  omega

/-- **Round-to-nearest-even is monotone**: a smaller fraction never rounds to a larger binary64 -/
theorem rnd_mono (n d n' d' : Nat) (hd : 0 < d) (hd' : 0 < d') (h : n * d' ≤ n' * d) :
    F64.le (rnd n d) (rnd n' d') := by
  unfold F64.le
  by_cases hn : n = 0
  · subst hn; simp [rnd]
  have hn' : n' ≠ 0 := by
    intro e; subst e
    have : n * d' = 0 := by omega
    rcases Nat.mul_eq_zero.mp this with h0 | h0 <;> omega
  unfold rnd; rw [if_neg hn, if_neg hn']; simp only
  -- the scale of the smaller value is at least the scale of the larger one
  have hk : fracBits n' d' ≤ fracBits n d := by
    rcases fracBits_ok_or n d with hP | h1100
    · apply fracBits_le
      have h1 : 2 ^ 52 * d' * d ≤ n' * 2 ^ fracBits n d * d := by
        calc 2 ^ 52 * d' * d = 2 ^ 52 * d * d' := by ring
          _ ≤ n * 2 ^ fracBits n d * d' := Nat.mul_le_mul_right _ hP
          _ = n * d' * 2 ^ fracBits n d := by ring
          _ ≤ n' * d * 2 ^ fracBits n d := Nat.mul_le_mul_right _ h
          _ = n' * 2 ^ fracBits n d * d := by ring
      exact Nat.le_of_mul_le_mul_right h1 hd
    · rw [h1100]; exact fracBits_bound _ _
  rcases Nat.eq_or_lt_of_le hk with heq | hlt
  · rw [heq]
    exact Nat.mul_le_mul_right _ (roundDiv_mono n d n' d' _ hd hd' h)
  · -- different binades: the smaller value is at most 2^53 units, the larger at least 2^52
    generalize hkx : fracBits n d = kx at *
    generalize hky : fracBits n' d' = ky at *
    have hmin := fracBits_min n d (kx - 1) (by omega)
    have hrx : roundDiv n d kx ≤ 2 ^ 53 := by
      have h1 : n * 2 ^ (kx - 1) < 2 ^ 52 * d := by omega
      have h2 : n * 2 ^ kx < 2 ^ 53 * d := by
        have : kx = (kx - 1) + 1 := by omega
        rw [this, Nat.pow_succ]
        calc n * (2 ^ (kx - 1) * 2) = n * 2 ^ (kx - 1) * 2 := by ring
          _ < 2 ^ 52 * d * 2 := Nat.mul_lt_mul_of_pos_right h1 (by omega)
          _ = 2 ^ 53 * d := by ring
      have h3 : n * 2 ^ kx / d < 2 ^ 53 := (Nat.div_lt_iff_lt_mul hd).mpr h2
      have := (roundDiv_floor n d kx).2
      omega
    have hry : 2 ^ 52 ≤ roundDiv n' d' ky := by
      rcases fracBits_ok_or n' d' with hP | h1100
      · rw [hky] at hP
        have h3 : 2 ^ 52 ≤ n' * 2 ^ ky / d' := (Nat.le_div_iff_mul_le hd').mpr hP
        have := (roundDiv_floor n' d' ky).1
        omega
      · have := fracBits_bound n d; omega
    calc roundDiv n d kx * 2 ^ ky ≤ 2 ^ 53 * 2 ^ ky := Nat.mul_le_mul_right _ hrx
      _ = 2 ^ 52 * 2 ^ (ky + 1) := by rw [Nat.pow_succ]; ring
      _ ≤ 2 ^ 52 * 2 ^ kx := Nat.mul_le_mul_left _ (Nat.pow_le_pow_right (by omega) (by omega))
      _ ≤ roundDiv n' d' ky * 2 ^ kx := Nat.mul_le_mul_right _ hry

/-- **Rounding is a function of the value**, not of the fraction that represents it: equal
    fractions round to binary64 values that are equal (as values) -/
theorem rnd_value_congr (n d n' d' : Nat) (hd : 0 < d) (hd' : 0 < d') (h : n * d' = n' * d) :
    F64.le (rnd n d) (rnd n' d') ∧ F64.le (rnd n' d') (rnd n d) :=
  ⟨rnd_mono n d n' d' hd hd' (Nat.le_of_eq h), rnd_mono n' d' n d hd' hd (Nat.le_of_eq h.symm)⟩

/-- **The model rounds to binary64**: inside the domain (a positive value below 2^53, denominator
    below 2^1000) the result has exactly 53 significant bits (`2^52 ≤ mant ≤ 2^53`, the upper end
    being the next power of two), and by `rnd_err` it is within half a unit in the last place. -/
theorem rnd_53_bits (n d : Nat) (hn : 0 < n) (hd : 0 < d) (hd' : d ≤ 2 ^ 1000)
    (hdom : n < 2 ^ 53 * d) :
    2 ^ 52 ≤ (rnd n d).mant ∧ (rnd n d).mant ≤ 2 ^ 53 := by
  unfold rnd; rw [if_neg (by omega)]; simp only
  have hP := fracBits_ok n d hn hd'
  generalize hk : fracBits n d = k at *
  have hfl := roundDiv_floor n d k
  constructor
  · have : 2 ^ 52 ≤ n * 2 ^ k / d := (Nat.le_div_iff_mul_le hd).mpr hP
    omega
  · by_cases hk0 : k = 0
    · subst hk0
      have : n * 2 ^ 0 / d < 2 ^ 53 := (Nat.div_lt_iff_lt_mul hd).mpr (by simpa using hdom)
      omega
    · have hmin := fracBits_min n d (k - 1) (by omega)
      have h1 : n * 2 ^ (k - 1) < 2 ^ 52 * d := by omega
      have h2 : n * 2 ^ k < 2 ^ 53 * d := by
        have : k = (k - 1) + 1 := by omega
        rw [this, Nat.pow_succ]
        calc n * (2 ^ (k - 1) * 2) = n * 2 ^ (k - 1) * 2 := by ring
          _ < 2 ^ 52 * d * 2 := Nat.mul_lt_mul_of_pos_right h1 (by omega)
          _ = 2 ^ 53 * d := by ring
      have : n * 2 ^ k / d < 2 ^ 53 := (Nat.div_lt_iff_lt_mul hd).mpr h2
      omega

theorem le_trans' {a b c : Dbl} (h1 : F64.le a b) (h2 : F64.le b c) : F64.le a c := by
  rw [le_iff_toQ] at *; exact le_trans h1 h2

theorem rnd_one : rnd 1 1 = ⟨2 ^ 52, 52⟩ := by decide

theorem zero_le (a : Dbl) : F64.le ⟨0, 0⟩ a := by unfold F64.le; simp

/-- the operand order of the subtraction does not matter -/
theorem absdiff_comm (a b : Dbl) : absdiff a b = absdiff b a := by
  unfold absdiff
  simp only []
  rw [Nat.add_comm b.frac a.frac]
  congr 1
  split <;> split <;> omega

/-- **Operand order**: the float64 date similarity is symmetric, bit for bit -/
theorem dateSimilarity_symm (l r m : Dbl) : dateSimilarity l r m = dateSimilarity r l m := by
  unfold dateSimilarity; rw [absdiff_comm]

/-- **Depends only on the distance**: the similarity is a function of `|left - right|` as the
    float64 subtraction returns it -/
theorem dateSimilarity_of_distance (l r l' r' m : Dbl) (h : absdiff l r = absdiff l' r') :
    dateSimilarity l r m = dateSimilarity l' r' m := by
  unfold dateSimilarity; rw [h]

/-- `1 - p` never exceeds one -/
theorem oneMinus_le_one (p : Dbl) : F64.le (oneMinus p) one := by
  have h1 : F64.le (oneMinus p) (rnd 1 1) := by
    unfold oneMinus
    apply rnd_mono _ _ _ _ (Nat.two_pow_pos _) (by omega)
    simp
  refine le_trans' h1 ?_
  rw [rnd_one]; unfold F64.le one; simp

/-- **Bounds**: the float64 date similarity lies in [0, 1] -/
theorem simOfDist_bounds (d m : Dbl) : F64.le ⟨0, 0⟩ (simOfDist d m) ∧ F64.le (simOfDist d m) one := by
  refine ⟨zero_le _, ?_⟩
  unfold simOfDist
  simp only []
  split
  · unfold F64.le one; simp
  · exact oneMinus_le_one _

theorem dateSimilarity_bounds (l r m : Dbl) :
    F64.le ⟨0, 0⟩ (dateSimilarity l r m) ∧ F64.le (dateSimilarity l r m) one :=
  simOfDist_bounds _ _

/-- **Identity**: equal `Years()` values have similarity exactly one -/
theorem dateSimilarity_self (l m : Dbl) :
    F64.le one (dateSimilarity l l m) ∧ F64.le (dateSimilarity l l m) one := by
  refine ⟨?_, (dateSimilarity_bounds l l m).2⟩
  have h0 : absdiff l l = ⟨0, 0⟩ := by unfold absdiff; simp [rnd]
  unfold dateSimilarity simOfDist
  rw [h0]
  have h1 : div ⟨0, 0⟩ m = ⟨0, 0⟩ := by simp [div, rnd]
  simp only [h1]
  have h2 : mul ⟨0, 0⟩ ⟨0, 0⟩ = ⟨0, 0⟩ := by simp [mul, rnd]
  rw [h2]
  have h3 : ¬ F64.lt one ⟨0, 0⟩ := by unfold F64.lt one; simp
  rw [if_neg h3]
  have h4 : oneMinus ⟨0, 0⟩ = rnd 1 1 := by simp [oneMinus]
  rw [h4, rnd_one]; unfold F64.le one; simp

/-- division by a positive maximum is monotone in the dividend -/
theorem div_mono (a b m : Dbl) (hm : 0 < m.mant) (h : F64.le a b) : F64.le (div a m) (div b m) := by
  unfold div
  apply rnd_mono _ _ _ _ (Nat.mul_pos hm (Nat.two_pow_pos _)) (Nat.mul_pos hm (Nat.two_pow_pos _))
  unfold F64.le at h
  calc a.mant * 2 ^ m.frac * (m.mant * 2 ^ b.frac)
      = (a.mant * 2 ^ b.frac) * (m.mant * 2 ^ m.frac) := by ring
    _ ≤ (b.mant * 2 ^ a.frac) * (m.mant * 2 ^ m.frac) := Nat.mul_le_mul_right _ h
    _ = b.mant * 2 ^ m.frac * (m.mant * 2 ^ a.frac) := by ring

/-- squaring is monotone -/
theorem sq_mono (a b : Dbl) (h : F64.le a b) : F64.le (mul a a) (mul b b) := by
  unfold mul
  apply rnd_mono _ _ _ _ (Nat.two_pow_pos _) (Nat.two_pow_pos _)
  unfold F64.le at h
  calc a.mant * a.mant * 2 ^ (b.frac + b.frac)
      = (a.mant * 2 ^ b.frac) * (a.mant * 2 ^ b.frac) := by rw [Nat.pow_add]; ring
    _ ≤ (b.mant * 2 ^ a.frac) * (b.mant * 2 ^ a.frac) := Nat.mul_le_mul h h
    _ = b.mant * b.mant * 2 ^ (a.frac + a.frac) := by rw [Nat.pow_add]; ring

/-- `1 - p` is antitone on values up to one -/
theorem oneMinus_anti (p q : Dbl) (h : F64.le p q) (hq : F64.le q one) :
    F64.le (oneMinus q) (oneMinus p) := by
  have hp : F64.le p one := le_trans' h hq
  unfold oneMinus
  apply rnd_mono _ _ _ _ (Nat.two_pow_pos _) (Nat.two_pow_pos _)
  unfold F64.le one at *
  simp only [Nat.pow_zero, Nat.mul_one, Nat.one_mul] at hp hq
  rw [Nat.sub_mul, Nat.sub_mul]
  have e : 2 ^ q.frac * 2 ^ p.frac = 2 ^ p.frac * 2 ^ q.frac := Nat.mul_comm _ _
  generalize 2 ^ q.frac * 2 ^ p.frac = A at *
  generalize 2 ^ p.frac * 2 ^ q.frac = B at *
  generalize q.mant * 2 ^ p.frac = C at *
  generalize p.mant * 2 ^ q.frac = E at *
  omega

/-- **Never increases with the distance**: a larger float64 distance never gives a larger
    similarity (for a positive maximum) -/
theorem simOfDist_anti (d d' m : Dbl) (hm : 0 < m.mant) (h : F64.le d d') :
    F64.le (simOfDist d' m) (simOfDist d m) := by
  have hq := div_mono d d' m hm h
  have hp := sq_mono _ _ hq
  unfold simOfDist
  simp only []
  generalize mul (div d m) (div d m) = p at *
  generalize mul (div d' m) (div d' m) = p' at *
  by_cases h1 : F64.lt one p'
  · rw [if_pos h1]; exact zero_le _
  · rw [if_neg h1]
    have hp'1 : F64.le p' one := by
      rw [le_iff_toQ]; rw [lt_iff_toQ] at h1; exact not_lt.mp h1
    have h2 : ¬ F64.lt one p := by
      rw [lt_iff_toQ]; rw [le_iff_toQ] at hp hp'1
      exact not_lt.mpr (le_trans hp hp'1)
    rw [if_neg h2]
    exact oneMinus_anti p p' hp hp'1

/-- **Zero from the maximum on**: when the float64 distance reaches the configured maximum the
    similarity is exactly zero -/
theorem simOfDist_zero (d m : Dbl) (hm : 0 < m.mant) (h : F64.le m d) :
    simOfDist d m = ⟨0, 0⟩ := by
  have hq : F64.le (rnd 1 1) (div d m) := by
    unfold div
    apply rnd_mono _ _ _ _ (by omega) (Nat.mul_pos hm (Nat.two_pow_pos _))
    unfold F64.le at h
    simpa [Nat.mul_comm] using h
  have hq1 : F64.le one (div d m) := by
    refine le_trans' ?_ hq; rw [rnd_one]; unfold F64.le one; simp
  have hp : F64.le (rnd 1 1) (mul (div d m) (div d m)) := by
    unfold mul
    apply rnd_mono _ _ _ _ (by omega) (Nat.two_pow_pos _)
    unfold F64.le one at hq1
    simp only [Nat.pow_zero, Nat.mul_one, Nat.one_mul] at hq1
    rw [Nat.one_mul, Nat.mul_one, Nat.pow_add]
    exact Nat.mul_le_mul hq1 hq1
  have hp1 : F64.le one (mul (div d m) (div d m)) := by
    refine le_trans' ?_ hp; rw [rnd_one]; unfold F64.le one; simp
  unfold simOfDist
  simp only []
  generalize mul (div d m) (div d m) = p at *
  split
  · rfl
  · rename_i hnot
    -- p is exactly one: 1 - p is the rounding of zero
    have hle : p.mant ≤ 2 ^ p.frac := by
      unfold F64.lt one at hnot; simp at hnot; exact hnot
    have hge : 2 ^ p.frac ≤ p.mant := by
      unfold F64.le one at hp1; simpa using hp1
    have : 2 ^ p.frac - p.mant = 0 := by omega
    unfold oneMinus; rw [this]; simp [rnd]

/-! ### `jaro` on the float64 values -/

theorem add_comm' (a b : Dbl) : add a b = add b a := by
  unfold add
  rw [Nat.add_comm (a.mant * 2 ^ b.frac), Nat.add_comm a.frac]

theorem jaroValueF_comm (m h la lb : Nat) : jaroValueF m h la lb = jaroValueF m h lb la := by
  unfold jaroValueF
  simp only []
  rw [add_comm' (div (ofNat m) (ofNat la))]

/-- **Operand order**: the float64 Jaro value is the same in both directions, bit for bit (the
    matching is symmetric — `jaro_symm` — and float64 addition is commutative) -/
theorem jaroF_symm (a b : Str) : jaroF a b = jaroF b a := by
  have h1 := Sim.jaroFinal_pairs a b
  have h2 := Sim.jaroFinal_pairs b a
  have hp := Sim.jaroPairs_swap a b
  unfold jaroF
  simp only
  rw [h1.1, h1.2, h2.1, h2.2, hp.length_eq, List.length_map]
  have : Sim.offDiag (Sim.jaroPairs b a) = Sim.offDiag (Sim.jaroPairs a b) := by
    rw [← Sim.offDiag_swap (Sim.jaroPairs a b)]
    unfold Sim.offDiag
    exact hp.countP_eq _
  rw [this]
  exact jaroValueF_comm _ _ _ _

/-- the value of a binary64 is at most the natural number `k` -/
def leNat (x : Dbl) (k : Nat) : Prop := x.mant ≤ k * 2 ^ x.frac

/-- a positive natural number below 2^53·… rounds to itself -/
theorem rnd_nat (k : Nat) (hk : 0 < k) :
    rnd k 1 = ⟨k * 2 ^ fracBits k 1, fracBits k 1⟩ := by
  unfold rnd roundDiv
  rw [if_neg (by omega)]
  simp [Nat.mod_one]

theorem rnd_leNat (n d k : Nat) (hd : 0 < d) (h : n ≤ k * d) : leNat (rnd n d) k := by
  by_cases hk : k = 0
  · subst hk
    have : n = 0 := by omega
    subst this; simp [rnd, leNat]
  have hm := rnd_mono n d k 1 hd (by omega) (by simpa using h)
  rw [rnd_nat k (by omega)] at hm
  unfold F64.le at hm
  simp only at hm
  unfold leNat
  have h2 : (rnd n d).mant * 2 ^ fracBits k 1 ≤ k * 2 ^ (rnd n d).frac * 2 ^ fracBits k 1 := by
    calc (rnd n d).mant * 2 ^ fracBits k 1 ≤ k * 2 ^ fracBits k 1 * 2 ^ (rnd n d).frac := hm
      _ = k * 2 ^ (rnd n d).frac * 2 ^ fracBits k 1 := by ring
  exact Nat.le_of_mul_le_mul_right h2 (Nat.two_pow_pos _)

theorem rnd_geNat (n d k : Nat) (hd : 0 < d) (h : k * d ≤ n) : k * 2 ^ (rnd n d).frac ≤ (rnd n d).mant := by
  by_cases hk : k = 0
  · subst hk; simp
  have hm := rnd_mono k 1 n d (by omega) hd (by simpa using h)
  rw [rnd_nat k (by omega)] at hm
  unfold F64.le at hm
  simp only at hm
  have h2 : k * 2 ^ (rnd n d).frac * 2 ^ fracBits k 1 ≤ (rnd n d).mant * 2 ^ fracBits k 1 := by
    calc k * 2 ^ (rnd n d).frac * 2 ^ fracBits k 1
        = k * 2 ^ fracBits k 1 * 2 ^ (rnd n d).frac := by ring
      _ ≤ (rnd n d).mant * 2 ^ fracBits k 1 := hm
  exact Nat.le_of_mul_le_mul_right h2 (Nat.two_pow_pos _)

theorem div_nat_leNat (m l : Nat) (hl : 0 < l) (h : m ≤ l) : leNat (div (ofNat m) (ofNat l)) 1 := by
  unfold div ofNat
  apply rnd_leNat _ _ _ (by simpa using hl)
  simpa using h

theorem add_leNat (a b : Dbl) (j k : Nat) (ha : leNat a j) (hb : leNat b k) :
    leNat (add a b) (j + k) := by
  unfold add
  apply rnd_leNat _ _ _ (Nat.two_pow_pos _)
  unfold leNat at ha hb
  rw [Nat.pow_add]
  calc a.mant * 2 ^ b.frac + b.mant * 2 ^ a.frac
      ≤ j * 2 ^ a.frac * 2 ^ b.frac + k * 2 ^ b.frac * 2 ^ a.frac :=
        Nat.add_le_add (Nat.mul_le_mul_right _ ha) (Nat.mul_le_mul_right _ hb)
    _ = (j + k) * (2 ^ a.frac * 2 ^ b.frac) := by ring

/-- **Bounds**: the float64 Jaro value lies in [0, 1] -/
theorem jaroValueF_le_one (m h la lb : Nat) (ha : m ≤ la) (hb : m ≤ lb) :
    leNat (jaroValueF m h la lb) 1 := by
  unfold jaroValueF
  split
  · simp [leNat]
  · rename_i hm
    simp only []
    have h1 := div_nat_leNat m la (by omega) ha
    have h2 := div_nat_leNat m lb (by omega) hb
    have h3 := div_nat_leNat (m - h / 2) m (by omega) (by omega)
    have h4 := add_leNat _ _ 1 1 h1 h2
    have h5 := add_leNat _ _ 2 1 h4 h3
    generalize add (add (div (ofNat m) (ofNat la)) (div (ofNat m) (ofNat lb)))
      (div (ofNat (m - h / 2)) (ofNat m)) = t at *
    unfold div ofNat
    apply rnd_leNat _ _ _ (by positivity)
    unfold leNat at h5
    simp only [Nat.pow_zero, Nat.mul_one, Nat.one_mul]
    omega

theorem jaroF_bounds (a b : Str) : F64.le ⟨0, 0⟩ (jaroF a b) ∧ F64.le (jaroF a b) one := by
  refine ⟨zero_le _, ?_⟩
  have hinv := Sim.jaroFinal_inv a b
  have hb : (Sim.jaroFinal a b).nMatch ≤ b.length := by
    rw [hinv.cnt, ← hinv.len]; exact List.count_le_length
  have := jaroValueF_le_one (Sim.jaroFinal a b).nMatch (Sim.jaroFinal a b).nHalf a.length b.length
    hinv.idx hb
  unfold jaroF; simp only
  unfold leNat at this
  unfold F64.le one
  simpa using this

/-- **Identity**: a non-empty string compared with itself has float64 Jaro value exactly one -/
theorem jaroF_self (a : Str) (h : a ≠ []) : F64.le one (jaroF a a) ∧ F64.le (jaroF a a) one := by
  refine ⟨?_, (jaroF_bounds a a).2⟩
  have hl := Sim.jaroLoop_self a (Sim.matchRange a.length a.length) [] a rfl
  have hf : Sim.jaroFinal a a = ⟨List.replicate a.length true, a.length, 0⟩ := by
    unfold Sim.jaroFinal Sim.jaroInit
    simpa using hl
  have hpos : 0 < a.length := List.length_pos_iff.mpr h
  unfold jaroF
  simp only [hf]
  unfold jaroValueF
  rw [if_neg (by omega)]
  simp only [Nat.zero_div, Nat.sub_zero]
  generalize a.length = l at *
  -- every quotient l / l is at least one, the sum at least three, a third of it at least one
  have q1 : 1 * 2 ^ (div (ofNat l) (ofNat l)).frac ≤ (div (ofNat l) (ofNat l)).mant := by
    unfold div ofNat
    apply rnd_geNat _ _ _ (by simpa using hpos)
    simp
  generalize div (ofNat l) (ofNat l) = x at *
  have s2 : 2 * 2 ^ (add x x).frac ≤ (add x x).mant := by
    unfold add
    apply rnd_geNat _ _ _ (Nat.two_pow_pos _)
    rw [Nat.pow_add]
    calc 2 * (2 ^ x.frac * 2 ^ x.frac) = 1 * 2 ^ x.frac * 2 ^ x.frac + 1 * 2 ^ x.frac * 2 ^ x.frac := by ring
      _ ≤ x.mant * 2 ^ x.frac + x.mant * 2 ^ x.frac :=
        Nat.add_le_add (Nat.mul_le_mul_right _ q1) (Nat.mul_le_mul_right _ q1)
  generalize add x x = y at *
  have s3 : 3 * 2 ^ (add y x).frac ≤ (add y x).mant := by
    unfold add
    apply rnd_geNat _ _ _ (Nat.two_pow_pos _)
    rw [Nat.pow_add]
    calc 3 * (2 ^ y.frac * 2 ^ x.frac)
        = 2 * 2 ^ y.frac * 2 ^ x.frac + 1 * 2 ^ x.frac * 2 ^ y.frac := by ring
      _ ≤ y.mant * 2 ^ x.frac + x.mant * 2 ^ y.frac :=
        Nat.add_le_add (Nat.mul_le_mul_right _ s2) (Nat.mul_le_mul_right _ q1)
  generalize add y x = t at *
  have fin : 1 * 2 ^ (div t (ofNat 3)).frac ≤ (div t (ofNat 3)).mant := by
    unfold div ofNat
    apply rnd_geNat _ _ _ (by positivity)
    simp only [Nat.pow_zero, Nat.mul_one, Nat.one_mul]
    omega
  unfold F64.le one
  simpa using fin

/-! ### `JaroWinkler` and `StringSimilarity` on the float64 values -/

/-- **Operand order** of JaroWinkler, bit for bit -/
theorem jaroWinklerF_symm (a b : Str) (boost : Dbl) (p : Nat) :
    jaroWinklerF a b boost p = jaroWinklerF b a boost p := by
  unfold jaroWinklerF
  rw [jaroF_symm a b, Sim.prefixMatches_comm p a b]

/-- **Operand order** of StringSimilarity, bit for bit -/
theorem stringSimilarityF_symm (a b : Str) (boost : Dbl) (p : Nat) :
    stringSimilarityF a b boost p = stringSimilarityF b a boost p := by
  unfold stringSimilarityF
  simp only
  rw [Sim.comparedNames_swap a b]
  exact jaroWinklerF_symm _ _ _ _

/-- a value at most `1 + 2^-53` rounds to at most one (at the tie the even neighbour is one) -/
theorem rnd_le_one_of_near (n d : Nat) (hd : 0 < d) (h : 2 ^ 53 * n ≤ (2 ^ 53 + 1) * d) :
    leNat (rnd n d) 1 := by
  by_cases hle : n ≤ d
  · exact rnd_leNat n d 1 hd (by simpa using hle)
  · have hgt : d < n := by omega
    have hk : fracBits n d = 52 := by
      apply Nat.le_antisymm
      · exact fracBits_le_52 n d (by omega)
      · by_contra hc
        have hlt : fracBits n d < 52 := by omega
        rcases fracBits_ok_or n d with hP | h1100
        · -- 2^52 d ≤ n 2^k with k ≤ 51 gives n ≥ 2 d
          have : n * 2 ^ fracBits n d ≤ n * 2 ^ 51 :=
            Nat.mul_le_mul_left _ (Nat.pow_le_pow_right (by omega) (by omega))
          have h2 : 2 ^ 52 * d ≤ n * 2 ^ 51 := le_trans hP this
          have h3 : 2 * d ≤ n := by
            have : 2 ^ 51 * (2 * d) ≤ 2 ^ 51 * n := by
              calc 2 ^ 51 * (2 * d) = 2 ^ 52 * d := by ring
                _ ≤ n * 2 ^ 51 := h2
                _ = 2 ^ 51 * n := by ring
            exact Nat.le_of_mul_le_mul_left this (by positivity)
          have : 2 ^ 53 * (2 * d) ≤ (2 ^ 53 + 1) * d := le_trans (Nat.mul_le_mul_left _ h3) h
          have : 2 ^ 54 * d ≤ (2 ^ 53 + 1) * d := by
            calc 2 ^ 54 * d = 2 ^ 53 * (2 * d) := by ring
              _ ≤ (2 ^ 53 + 1) * d := this
          have := Nat.le_of_mul_le_mul_right this hd
          omega
        · omega
    unfold rnd; rw [if_neg (by omega)]; simp only [hk]
    unfold leNat; simp only
    obtain ⟨_, he2⟩ := roundDiv_err n d 52 hd
    obtain ⟨ht, _⟩ := roundDiv_tie_even n d 52 hd
    generalize roundDiv n d 52 = q at *
    by_contra hc
    have hq : 2 ^ 52 + 1 ≤ q := by omega
    -- 2 q d ≤ 2 n 2^52 + d = n 2^53 + d ≤ (2^53 + 1) d + d
    have h1 : 2 * ((2 ^ 52 + 1) * d) ≤ 2 * (q * d) := Nat.mul_le_mul_left _ (Nat.mul_le_mul_right _ hq)
    have h2 : 2 * (n * 2 ^ 52) = 2 ^ 53 * n := by ring
    have h3 : 2 * ((2 ^ 52 + 1) * d) = (2 ^ 53 + 1) * d + d := by ring
    have hqe : q = 2 ^ 52 + 1 := by
      by_contra hne
      have hq2 : 2 ^ 52 + 2 ≤ q := by omega
      have h1' : 2 * ((2 ^ 52 + 2) * d) ≤ 2 * (q * d) :=
        Nat.mul_le_mul_left _ (Nat.mul_le_mul_right _ hq2)
      have h3' : 2 * ((2 ^ 52 + 2) * d) = (2 ^ 53 + 1) * d + 3 * d := by ring
      omega
    have htie : 2 * (q * d) = 2 * (n * 2 ^ 52) + d := by omega
    have := ht htie
    omega

instance (x : Dbl) (k : Nat) : Decidable (leNat x k) := by unfold leNat; exact inferInstance

/-- rounding a binary64 again does not increase it (53 significant bits, at least one
    fractional bit) -/
theorem rnd_idem_le (x : Dbl) (h1 : 2 ^ 52 ≤ x.mant) (h2 : x.mant ≤ 2 ^ 53)
    (hf' : x.frac ≤ 1000) : F64.le (rnd x.mant (2 ^ x.frac)) x := by
  have hpos : 0 < x.mant := lt_of_lt_of_le (by positivity) h1
  have hk1 : fracBits x.mant (2 ^ x.frac) ≤ x.frac :=
    fracBits_le _ _ _ (Nat.mul_le_mul_right _ h1)
  have hP := fracBits_ok x.mant (2 ^ x.frac) hpos (Nat.pow_le_pow_right (by omega) hf')
  generalize hk : fracBits x.mant (2 ^ x.frac) = k at *
  have hk2 : x.frac ≤ k + 1 := by
    have : 2 ^ 52 * 2 ^ x.frac ≤ 2 ^ 53 * 2 ^ k := le_trans hP (Nat.mul_le_mul_right _ h2)
    have : 2 ^ 52 * 2 ^ x.frac ≤ 2 ^ 52 * 2 ^ (k + 1) := by
      calc 2 ^ 52 * 2 ^ x.frac ≤ 2 ^ 53 * 2 ^ k := this
        _ = 2 ^ 52 * 2 ^ (k + 1) := by rw [Nat.pow_succ]; ring
    have := Nat.le_of_mul_le_mul_left this (by positivity)
    exact (Nat.pow_le_pow_iff_right (by omega)).mp this
  unfold rnd; rw [if_neg (by omega), hk]
  unfold F64.le; simp only
  rcases Nat.eq_or_lt_of_le hk1 with he | hlt
  · subst he
    rw [roundDiv_exact x.mant (2 ^ x.frac) x.frac x.mant (by positivity) rfl]
  · have hke : x.frac = k + 1 := by omega
    have hm : x.mant = 2 ^ 53 := by
      apply Nat.le_antisymm h2
      have : 2 ^ 53 * 2 ^ k ≤ x.mant * 2 ^ k := by
        calc 2 ^ 53 * 2 ^ k = 2 ^ 52 * 2 ^ (k + 1) := by rw [Nat.pow_succ]; ring
          _ = 2 ^ 52 * 2 ^ x.frac := by rw [hke]
          _ ≤ x.mant * 2 ^ k := hP
      exact Nat.le_of_mul_le_mul_right this (by positivity)
    have hex : x.mant * 2 ^ k = 2 ^ 52 * 2 ^ x.frac := by
      rw [hm, hke, Nat.pow_succ]; ring
    rw [roundDiv_exact x.mant (2 ^ x.frac) k (2 ^ 52) (by positivity) hex]
    rw [hm, hke, Nat.pow_succ]
    exact Nat.le_of_eq (by ring)

theorem tenth_times_le_one (pm : Nat) (h : pm ≤ 10) : leNat (mul tenth (ofNat pm)) 1 := by
  interval_cases pm <;> decide

/-- **Bounds of the Jaro-Winkler step**: for a Jaro value in [0,1] and at most ten matching
    prefix bytes, `j + 0.1*prefixMatch*(1.0-j)` in float64 never exceeds one -/
theorem jwValueF_le_one (j boost : Dbl) (pm : Nat) (hj : leNat j 1) (hjf : j.frac ≤ 900)
    (hpm : pm ≤ 10) : leNat (jwValueF j boost pm) 1 := by
  unfold jwValueF
  split
  · exact hj
  have hc := tenth_times_le_one pm hpm
  generalize mul tenth (ofNat pm) = c at *
  unfold leNat at hj hc
  simp only [Nat.one_mul] at hj hc
  rcases Nat.eq_or_lt_of_le hj with heq | hlt
  · -- j = 1: nothing is added
    have hy : oneMinus j = ⟨0, 0⟩ := by unfold oneMinus; rw [heq]; simp [rnd]
    have hz : mul c ⟨0, 0⟩ = ⟨0, 0⟩ := by simp [mul, rnd]
    rw [hy, hz]
    unfold add
    apply rnd_leNat _ _ _ (by positivity)
    simp; omega
  · -- j < 1
    have hnpos : 0 < 2 ^ j.frac - j.mant := by omega
    have hd1000 : 2 ^ j.frac ≤ 2 ^ 1000 := Nat.pow_le_pow_right (by omega) (by omega)
    have hdom : 2 ^ j.frac - j.mant < 2 ^ 53 * 2 ^ j.frac := by
      have : 2 ^ j.frac ≤ 2 ^ 53 * 2 ^ j.frac := Nat.le_mul_of_pos_left _ (by positivity)
      omega
    have h53 : 2 ^ 52 ≤ (oneMinus j).mant ∧ (oneMinus j).mant ≤ 2 ^ 53 :=
      rnd_53_bits (2 ^ j.frac - j.mant) (2 ^ j.frac) hnpos (by positivity) hd1000 hdom
    have hy1 : leNat (oneMinus j) 1 := by
      unfold oneMinus; apply rnd_leNat _ _ _ (by positivity); omega
    have hyfe : (oneMinus j).frac = fracBits (2 ^ j.frac - j.mant) (2 ^ j.frac) := by
      unfold oneMinus rnd; rw [if_neg (by omega)]
    have herr : 2 * ((oneMinus j).mant * 2 ^ j.frac) ≤
        2 * ((2 ^ j.frac - j.mant) * 2 ^ (oneMinus j).frac) + 2 ^ j.frac := by
      have := (roundDiv_err (2 ^ j.frac - j.mant) (2 ^ j.frac)
        (fracBits (2 ^ j.frac - j.mant) (2 ^ j.frac)) (by positivity)).2
      rw [hyfe]
      unfold oneMinus rnd; rw [if_neg (by omega)]; simpa using this
    have hyf1000 : (oneMinus j).frac ≤ 1000 := by
      have hP : 2 ^ 52 * 2 ^ j.frac ≤ (2 ^ j.frac - j.mant) * 2 ^ (j.frac + 52) := by
        calc 2 ^ 52 * 2 ^ j.frac = 1 * 2 ^ (j.frac + 52) := by rw [Nat.pow_add]; ring
          _ ≤ (2 ^ j.frac - j.mant) * 2 ^ (j.frac + 52) := Nat.mul_le_mul_right _ hnpos
      have := fracBits_le _ _ _ hP
      omega
    generalize oneMinus j = y at *
    unfold leNat at hy1
    simp only [Nat.one_mul] at hy1
    have hyf52 : 52 ≤ y.frac := by
      have : 2 ^ 52 ≤ 2 ^ y.frac := le_trans h53.1 hy1
      exact (Nat.pow_le_pow_iff_right (by omega)).mp this
    -- z = c * y is at most y
    have hz1 : F64.le (mul c y) (rnd y.mant (2 ^ y.frac)) := by
      unfold mul
      apply rnd_mono _ _ _ _ (by positivity) (by positivity)
      calc c.mant * y.mant * 2 ^ y.frac ≤ 2 ^ c.frac * y.mant * 2 ^ y.frac :=
            Nat.mul_le_mul_right _ (Nat.mul_le_mul_right _ hc)
        _ = y.mant * 2 ^ (c.frac + y.frac) := by rw [Nat.pow_add]; ring
    have hz2 := rnd_idem_le y h53.1 h53.2 hyf1000
    have hz : F64.le (mul c y) y := le_trans' hz1 hz2
    generalize mul c y = z at *
    -- the sum is at most 1 + 2^-53
    unfold add
    apply rnd_le_one_of_near _ _ (by positivity)
    rw [le_iff_toQ] at hz
    unfold toQ at hz
    have hzq : (z.mant : ℚ) / 2 ^ z.frac ≤ (y.mant : ℚ) / 2 ^ y.frac := hz
    have herrq : (2 : ℚ) * (y.mant * 2 ^ j.frac) ≤ 2 * ((2 ^ j.frac - j.mant) * 2 ^ y.frac) + 2 ^ j.frac := by
      have hcast : ((2 ^ j.frac - j.mant : ℕ) : ℚ) = 2 ^ j.frac - j.mant := by
        rw [Nat.cast_sub hj]; push_cast; ring
      have : ((2 * (y.mant * 2 ^ j.frac) : ℕ) : ℚ) ≤
          ((2 * ((2 ^ j.frac - j.mant) * 2 ^ y.frac) + 2 ^ j.frac : ℕ) : ℚ) := by exact_mod_cast herr
      push_cast at this
      rw [hcast] at this
      linarith
    -- in ℚ: Y ≤ (1 - J) + 1/(2·2^yf) and 2^yf ≥ 2^52
    have hJ : (0 : ℚ) < 2 ^ j.frac := by positivity
    have hY : (0 : ℚ) < 2 ^ y.frac := by positivity
    have hZ : (0 : ℚ) < 2 ^ z.frac := by positivity
    have hyq : (y.mant : ℚ) / 2 ^ y.frac ≤ 1 - (j.mant : ℚ) / 2 ^ j.frac + 1 / (2 * 2 ^ y.frac) := by
      rw [div_le_iff₀ hY]
      have e : (1 - (j.mant : ℚ) / 2 ^ j.frac + 1 / (2 * 2 ^ y.frac)) * 2 ^ y.frac =
          (2 * ((2 ^ j.frac - j.mant) * 2 ^ y.frac) + 2 ^ j.frac) / (2 * 2 ^ j.frac) := by
        field_simp
      rw [e, le_div_iff₀ (by positivity)]
      linarith
    have h252 : (1 : ℚ) / (2 * 2 ^ y.frac) ≤ 1 / 2 ^ 53 := by
      apply one_div_le_one_div_of_le (by positivity)
      calc (2 : ℚ) ^ 53 = 2 * 2 ^ 52 := by norm_num
        _ ≤ 2 * 2 ^ y.frac := by
          apply mul_le_mul_of_nonneg_left _ (by norm_num)
          exact pow_le_pow_right₀ (by norm_num) hyf52
    have hsumq : (j.mant : ℚ) / 2 ^ j.frac + (z.mant : ℚ) / 2 ^ z.frac ≤ 1 + 1 / 2 ^ 53 := by
      linarith
    -- back to the naturals
    have hfin : ((2 ^ 53 * (j.mant * 2 ^ z.frac + z.mant * 2 ^ j.frac) : ℕ) : ℚ) ≤
        (((2 ^ 53 + 1) * 2 ^ (j.frac + z.frac) : ℕ) : ℚ) := by
      push_cast
      have e : (j.mant : ℚ) / 2 ^ j.frac + (z.mant : ℚ) / 2 ^ z.frac =
          ((j.mant : ℚ) * 2 ^ z.frac + z.mant * 2 ^ j.frac) / 2 ^ (j.frac + z.frac) := by
        rw [pow_add]; field_simp
      rw [e, div_le_iff₀ (by positivity)] at hsumq
      have e2 : (1 + 1 / (2 : ℚ) ^ 53) * 2 ^ (j.frac + z.frac) =
          (2 ^ 53 + 1) * 2 ^ (j.frac + z.frac) / 2 ^ 53 := by field_simp
      rw [e2, le_div_iff₀ (by positivity)] at hsumq
      linarith
    exact_mod_cast hfin

/-- the float64 Jaro value has few fractional bits (it is 0 or at least 1/6) -/
theorem jaroValueF_frac (m h la lb : Nat) (hm : m ≤ 2 ^ 1000) (hh : h ≤ m) :
    (jaroValueF m h la lb).frac ≤ 900 := by
  unfold jaroValueF
  split
  · simp
  · rename_i hm0
    simp only []
    have hcdiv : div (ofNat (m - h / 2)) (ofNat m) = rnd (m - h / 2) m := by simp [div, ofNat]
    rw [hcdiv]
    have hnpos : 0 < m - h / 2 := by omega
    have hc53 := rnd_53_bits (m - h / 2) m hnpos (by omega) hm (by
      calc m - h / 2 ≤ m := Nat.sub_le _ _
        _ < 2 ^ 53 * m := by
          have : 1 * m < 2 ^ 53 * m := Nat.mul_lt_mul_of_pos_right (by norm_num) (by omega)
          omega)
    have hcf : (rnd (m - h / 2) m).frac ≤ 53 := by
      rw [rnd_frac _ _ hnpos]
      apply fracBits_le
      have : m ≤ (m - h / 2) * 2 := by omega
      calc 2 ^ 52 * m ≤ 2 ^ 52 * ((m - h / 2) * 2) := Nat.mul_le_mul_left _ this
        _ = (m - h / 2) * 2 ^ 53 := by ring
    generalize rnd (m - h / 2) m = cM at *
    generalize add (div (ofNat m) (ofNat la)) (div (ofNat m) (ofNat lb)) = ab
    -- the sum keeps at most the fractional bits of its last term
    have hge : 2 ^ 52 * 2 ^ (ab.frac + cM.frac) ≤
        (ab.mant * 2 ^ cM.frac + cM.mant * 2 ^ ab.frac) * 2 ^ cM.frac := by
      calc 2 ^ 52 * 2 ^ (ab.frac + cM.frac) = 2 ^ 52 * 2 ^ ab.frac * 2 ^ cM.frac := by
            rw [Nat.pow_add]; ring
        _ ≤ cM.mant * 2 ^ ab.frac * 2 ^ cM.frac :=
            Nat.mul_le_mul_right _ (Nat.mul_le_mul_right _ hc53.1)
        _ ≤ (ab.mant * 2 ^ cM.frac + cM.mant * 2 ^ ab.frac) * 2 ^ cM.frac :=
            Nat.mul_le_mul_right _ (Nat.le_add_left _ _)
    have hnp : 0 < ab.mant * 2 ^ cM.frac + cM.mant * 2 ^ ab.frac :=
      Nat.add_pos_right _ (Nat.mul_pos (lt_of_lt_of_le (by positivity) hc53.1) (by positivity))
    have htf : (add ab cM).frac ≤ 53 := by
      unfold add; rw [rnd_frac _ _ hnp]
      exact le_trans (fracBits_le _ _ _ hge) hcf
    have htm : 0 < (add ab cM).mant := by
      unfold add rnd; rw [if_neg (by omega)]; simp only
      rcases fracBits_ok_or (ab.mant * 2 ^ cM.frac + cM.mant * 2 ^ ab.frac) (2 ^ (ab.frac + cM.frac))
        with hP | h1100
      · have h3 := (Nat.le_div_iff_mul_le (Nat.two_pow_pos (ab.frac + cM.frac))).mpr hP
        have := (roundDiv_floor (ab.mant * 2 ^ cM.frac + cM.mant * 2 ^ ab.frac)
          (2 ^ (ab.frac + cM.frac))
          (fracBits (ab.mant * 2 ^ cM.frac + cM.mant * 2 ^ ab.frac) (2 ^ (ab.frac + cM.frac)))).1
        have : 0 < 2 ^ 52 := by positivity
        omega
      · have := fracBits_le _ _ _ hge
        omega
    generalize add ab cM = t at *
    have hd3 : div t (ofNat 3) = rnd t.mant (3 * 2 ^ t.frac) := by simp [div, ofNat]
    rw [hd3, rnd_frac _ _ htm]
    have : fracBits t.mant (3 * 2 ^ t.frac) ≤ t.frac + 54 := by
      apply fracBits_le
      calc 2 ^ 52 * (3 * 2 ^ t.frac) ≤ 2 ^ 52 * (4 * 2 ^ t.frac) :=
            Nat.mul_le_mul_left _ (Nat.mul_le_mul_right _ (by norm_num))
        _ = 1 * 2 ^ (t.frac + 54) := by rw [Nat.pow_add]; ring
        _ ≤ t.mant * 2 ^ (t.frac + 54) := Nat.mul_le_mul_right _ htm
    omega

theorem jaroF_frac (a b : Str) (hla : a.length ≤ 2 ^ 1000) : (jaroF a b).frac ≤ 900 := by
  have hinv := Sim.jaroFinal_inv a b
  unfold jaroF; simp only
  exact jaroValueF_frac _ _ _ _ (le_trans hinv.idx hla) hinv.half

/-- **Bounds**: the float64 Jaro-Winkler value lies in [0, 1] for prefix sizes up to ten (strings
    of any length a Go string can have) -/
theorem jaroWinklerF_bounds (a b : Str) (boost : Dbl) (p : Nat) (hp : p ≤ 10)
    (hla : a.length ≤ 2 ^ 1000) :
    F64.le ⟨0, 0⟩ (jaroWinklerF a b boost p) ∧ F64.le (jaroWinklerF a b boost p) one := by
  refine ⟨zero_le _, ?_⟩
  have hj : leNat (jaroF a b) 1 := by
    have := (jaroF_bounds a b).2
    unfold F64.le one at this; unfold leNat; simpa using this
  have := jwValueF_le_one (jaroF a b) boost (Sim.prefixMatches p a b) hj (jaroF_frac a b hla)
    (le_trans (Sim.prefixMatches_le p a b) hp)
  unfold jaroWinklerF
  unfold leNat at this
  unfold F64.le one
  simpa using this

/-- **Bounds**: the float64 `StringSimilarity` lies in [0, 1] -/
theorem stringSimilarityF_bounds (a b : Str) (boost : Dbl) (p : Nat) (hp : p ≤ 10)
    (hla : (Sim.comparedNames a b).1.length ≤ 2 ^ 1000) :
    F64.le ⟨0, 0⟩ (stringSimilarityF a b boost p) ∧ F64.le (stringSimilarityF a b boost p) one := by
  unfold stringSimilarityF
  exact jaroWinklerF_bounds _ _ _ _ hp hla

/-- the Jaro-Winkler step keeps a Jaro value of exactly one -/
theorem jwValueF_one (j boost : Dbl) (pm : Nat) (hj : j.mant = 2 ^ j.frac) :
    1 * 2 ^ (jwValueF j boost pm).frac ≤ (jwValueF j boost pm).mant := by
  unfold jwValueF
  split
  · omega
  · have hy : oneMinus j = ⟨0, 0⟩ := by unfold oneMinus; rw [hj]; simp [rnd]
    have hz : mul (mul tenth (ofNat pm)) ⟨0, 0⟩ = ⟨0, 0⟩ := by simp [mul, rnd]
    rw [hy, hz]
    unfold add
    apply rnd_geNat _ _ _ (by positivity)
    simp; omega

/-- **Identity**: a non-empty string compared with itself has float64 Jaro-Winkler value one -/
theorem jaroWinklerF_self (a : Str) (boost : Dbl) (p : Nat) (h : a ≠ []) (hp : p ≤ 10)
    (hla : a.length ≤ 2 ^ 1000) :
    F64.le one (jaroWinklerF a a boost p) ∧ F64.le (jaroWinklerF a a boost p) one := by
  refine ⟨?_, (jaroWinklerF_bounds a a boost p hp hla).2⟩
  obtain ⟨h1, h2⟩ := jaroF_self a h
  have hj : (jaroF a a).mant = 2 ^ (jaroF a a).frac := by
    unfold F64.le one at h1 h2
    simp at h1 h2
    omega
  have := jwValueF_one (jaroF a a) boost (Sim.prefixMatches p a a) hj
  unfold jaroWinklerF
  unfold F64.le one
  simpa using this

/-- **Identity**: a name of which something is left after trimming has float64
    `StringSimilarity` one with itself -/
theorem stringSimilarityF_self (a : Str) (boost : Dbl) (p : Nat) (h : Gedcom.cleanSpace a ≠ [])
    (hp : p ≤ 10) (hla : (Sim.comparedNames a a).1.length ≤ 2 ^ 1000) :
    F64.le one (stringSimilarityF a a boost p) ∧ F64.le (stringSimilarityF a a boost p) one := by
  have hx : (Sim.comparedNames a a).1 ≠ [] ∧ (Sim.comparedNames a a).2 = (Sim.comparedNames a a).1 := by
    unfold Sim.comparedNames
    by_cases hc : Sim.cleanName a = []
    · simp [hc, h]
    · simp [hc]
  unfold stringSimilarityF
  simp only
  rw [hx.2]
  exact jaroWinklerF_self _ boost p hx.1 hp hla

/-! ### The name/date mix of `(*IndividualNode).Similarity` on the float64 values -/

open Gedcom.SimSrc in
/-- `1.0 - x` as the source interpretation computes it is `oneMinus x` for `x ≤ 1` -/
theorem absdiff_one (x : Dbl) (h : x.mant ≤ 2 ^ x.frac) : absdiff (ofNat 1) x = oneMinus x := by
  unfold absdiff oneMinus ofNat
  simp [h]


/-- what is known about `1 - x` for a binary64 `x < 1` with at most 900 fractional bits -/
theorem oneMinus_facts (x : Dbl) (hlt : x.mant < 2 ^ x.frac) (hxf : x.frac ≤ 900) :
    2 ^ 52 ≤ (oneMinus x).mant ∧ (oneMinus x).mant ≤ 2 ^ 53 ∧
    (oneMinus x).mant ≤ 2 ^ (oneMinus x).frac ∧ (oneMinus x).frac ≤ 1000 ∧
    2 * ((oneMinus x).mant * 2 ^ x.frac) ≤
      2 * ((2 ^ x.frac - x.mant) * 2 ^ (oneMinus x).frac) + 2 ^ x.frac := by
  have hnpos : 0 < 2 ^ x.frac - x.mant := by omega
  have hd1000 : 2 ^ x.frac ≤ 2 ^ 1000 := Nat.pow_le_pow_right (by omega) (by omega)
  have hdom : 2 ^ x.frac - x.mant < 2 ^ 53 * 2 ^ x.frac := by
    have : 2 ^ x.frac ≤ 2 ^ 53 * 2 ^ x.frac := Nat.le_mul_of_pos_left _ (by positivity)
    omega
  have h53 : 2 ^ 52 ≤ (oneMinus x).mant ∧ (oneMinus x).mant ≤ 2 ^ 53 :=
    rnd_53_bits (2 ^ x.frac - x.mant) (2 ^ x.frac) hnpos (by positivity) hd1000 hdom
  have hy1 : leNat (oneMinus x) 1 := by
    unfold oneMinus; apply rnd_leNat _ _ _ (by positivity); omega
  have hyfe : (oneMinus x).frac = fracBits (2 ^ x.frac - x.mant) (2 ^ x.frac) := by
    unfold oneMinus rnd; rw [if_neg (by omega)]
  have herr : 2 * ((oneMinus x).mant * 2 ^ x.frac) ≤
      2 * ((2 ^ x.frac - x.mant) * 2 ^ (oneMinus x).frac) + 2 ^ x.frac := by
    have := (roundDiv_err (2 ^ x.frac - x.mant) (2 ^ x.frac)
      (fracBits (2 ^ x.frac - x.mant) (2 ^ x.frac)) (by positivity)).2
    rw [hyfe]
    unfold oneMinus rnd; rw [if_neg (by omega)]; simpa using this
  have hyf1000 : (oneMinus x).frac ≤ 1000 := by
    have hP : 2 ^ 52 * 2 ^ x.frac ≤ (2 ^ x.frac - x.mant) * 2 ^ (x.frac + 52) := by
      calc 2 ^ 52 * 2 ^ x.frac = 1 * 2 ^ (x.frac + 52) := by rw [Nat.pow_add]; ring
        _ ≤ (2 ^ x.frac - x.mant) * 2 ^ (x.frac + 52) := Nat.mul_le_mul_right _ hnpos
    have := fracBits_le _ _ _ hP
    omega
  unfold leNat at hy1
  simp only [Nat.one_mul] at hy1
  exact ⟨h53.1, h53.2, hy1, hyf1000, herr⟩

/-- **`p + z ≤ 1` in float64 whenever `p ≤ x` and `z ≤ 1 - x`** (as float64 values, `x ≤ 1`): the
    rounded complement exceeds the exact one by at most 2^-53, and a sum of at most `1 + 2^-53`
    rounds to at most one -/
theorem add_compl_le_one (x p z : Dbl) (hx : leNat x 1) (hxf : x.frac ≤ 900)
    (hp : F64.le p x) (hz : F64.le z (oneMinus x)) : leNat (add p z) 1 := by
  unfold leNat at hx
  simp only [Nat.one_mul] at hx
  rcases Nat.eq_or_lt_of_le hx with heq | hlt
  · -- x = 1: the complement is zero
    have hy : oneMinus x = ⟨0, 0⟩ := by unfold oneMinus; rw [heq]; simp [rnd]
    rw [hy] at hz
    have hz0 : z.mant = 0 := by unfold F64.le at hz; simpa using hz
    have hp1 : p.mant ≤ 2 ^ p.frac := by
      unfold F64.le at hp
      rw [heq] at hp
      have : p.mant * 2 ^ x.frac ≤ 2 ^ p.frac * 2 ^ x.frac := by
        rw [Nat.mul_comm (2 ^ p.frac)]; exact hp
      exact Nat.le_of_mul_le_mul_right this (by positivity)
    unfold add
    apply rnd_leNat _ _ _ (by positivity)
    rw [hz0, Nat.pow_add]
    simp only [Nat.zero_mul, Nat.add_zero, Nat.one_mul]
    exact Nat.mul_le_mul_right _ hp1
  · obtain ⟨h52, _, hy1, _, herr⟩ := oneMinus_facts x hlt hxf
    generalize oneMinus x = y at *
    have hyf52 : 52 ≤ y.frac := by
      have : 2 ^ 52 ≤ 2 ^ y.frac := le_trans h52 hy1
      exact (Nat.pow_le_pow_iff_right (by omega)).mp this
    unfold add
    apply rnd_le_one_of_near _ _ (by positivity)
    rw [le_iff_toQ] at hz hp
    unfold toQ at hz hp
    have herrq : (2 : ℚ) * (y.mant * 2 ^ x.frac) ≤ 2 * ((2 ^ x.frac - x.mant) * 2 ^ y.frac) + 2 ^ x.frac := by
      have hcast : ((2 ^ x.frac - x.mant : ℕ) : ℚ) = 2 ^ x.frac - x.mant := by
        rw [Nat.cast_sub hx]; push_cast; ring
      have : ((2 * (y.mant * 2 ^ x.frac) : ℕ) : ℚ) ≤
          ((2 * ((2 ^ x.frac - x.mant) * 2 ^ y.frac) + 2 ^ x.frac : ℕ) : ℚ) := by exact_mod_cast herr
      push_cast at this
      rw [hcast] at this
      linarith
    have hX : (0 : ℚ) < 2 ^ x.frac := by positivity
    have hY : (0 : ℚ) < 2 ^ y.frac := by positivity
    have hyq : (y.mant : ℚ) / 2 ^ y.frac ≤ 1 - (x.mant : ℚ) / 2 ^ x.frac + 1 / (2 * 2 ^ y.frac) := by
      rw [div_le_iff₀ hY]
      have e : (1 - (x.mant : ℚ) / 2 ^ x.frac + 1 / (2 * 2 ^ y.frac)) * 2 ^ y.frac =
          (2 * ((2 ^ x.frac - x.mant) * 2 ^ y.frac) + 2 ^ x.frac) / (2 * 2 ^ x.frac) := by
        field_simp
      rw [e, le_div_iff₀ (by positivity)]
      linarith
    have h252 : (1 : ℚ) / (2 * 2 ^ y.frac) ≤ 1 / 2 ^ 53 := by
      apply one_div_le_one_div_of_le (by positivity)
      calc (2 : ℚ) ^ 53 = 2 * 2 ^ 52 := by norm_num
        _ ≤ 2 * 2 ^ y.frac := by
          apply mul_le_mul_of_nonneg_left _ (by norm_num)
          exact pow_le_pow_right₀ (by norm_num) hyf52
    have hsumq : (p.mant : ℚ) / 2 ^ p.frac + (z.mant : ℚ) / 2 ^ z.frac ≤ 1 + 1 / 2 ^ 53 := by
      linarith
    have hfin : ((2 ^ 53 * (p.mant * 2 ^ z.frac + z.mant * 2 ^ p.frac) : ℕ) : ℚ) ≤
        (((2 ^ 53 + 1) * 2 ^ (p.frac + z.frac) : ℕ) : ℚ) := by
      push_cast
      have e : (p.mant : ℚ) / 2 ^ p.frac + (z.mant : ℚ) / 2 ^ z.frac =
          ((p.mant : ℚ) * 2 ^ z.frac + z.mant * 2 ^ p.frac) / 2 ^ (p.frac + z.frac) := by
        rw [pow_add]; field_simp
      rw [e, div_le_iff₀ (by positivity)] at hsumq
      have e2 : (1 + 1 / (2 : ℚ) ^ 53) * 2 ^ (p.frac + z.frac) =
          (2 ^ 53 + 1) * 2 ^ (p.frac + z.frac) / 2 ^ 53 := by field_simp
      rw [e2, le_div_iff₀ (by positivity)] at hsumq
      linarith
    exact_mod_cast hfin

/-- a product with a factor of at most one does not exceed the other factor (a binary64 with 53
    significant bits, or zero) -/
theorem mul_le_right (c y : Dbl) (hc : c.mant ≤ 2 ^ c.frac)
    (hy : y.mant = 0 ∨ (2 ^ 52 ≤ y.mant ∧ y.mant ≤ 2 ^ 53 ∧ y.frac ≤ 1000)) :
    F64.le (mul c y) y := by
  rcases hy with h0 | ⟨h1, h2, h3⟩
  · unfold mul; rw [h0]; simp [rnd, F64.le]
  · have hz1 : F64.le (mul c y) (rnd y.mant (2 ^ y.frac)) := by
      unfold mul
      apply rnd_mono _ _ _ _ (by positivity) (by positivity)
      calc c.mant * y.mant * 2 ^ y.frac ≤ 2 ^ c.frac * y.mant * 2 ^ y.frac :=
            Nat.mul_le_mul_right _ (Nat.mul_le_mul_right _ hc)
        _ = y.mant * 2 ^ (c.frac + y.frac) := by rw [Nat.pow_add]; ring
    exact le_trans' hz1 (rnd_idem_le y h1 h2 h3)

theorem mul_comm' (a b : Dbl) : mul a b = mul b a := by
  unfold mul; rw [Nat.mul_comm a.mant, Nat.add_comm a.frac]

/-- **Bounds of the name/date mix**: for a name score and date scores in [0,1] and a ratio in
    [0,1] that is a float64 (53 significant bits, at most 900 fractional bits), the float64 value
    `name*ratio + (birth+death)/2.0*(1.0-ratio)` never exceeds one -/
theorem mixF_le_one (name birth death ratio : Dbl) (hn : leNat name 1) (hb : leNat birth 1)
    (hd : leNat death 1) (hr : leNat ratio 1) (hrf : ratio.frac ≤ 900)
    (hrs : ratio.mant = 0 ∨ (2 ^ 52 ≤ ratio.mant ∧ ratio.mant ≤ 2 ^ 53)) :
    leNat (mixF name birth death ratio) 1 := by
  unfold mixF
  have hr' : ratio.mant ≤ 2 ^ ratio.frac := by unfold leNat at hr; simpa using hr
  rw [absdiff_one ratio hr']
  apply add_compl_le_one ratio _ _ hr hrf
  · -- name * ratio ≤ ratio
    rw [mul_comm']
    rw [mul_comm']
    have hn' : name.mant ≤ 2 ^ name.frac := by unfold leNat at hn; simpa using hn
    rcases hrs with h0 | ⟨h1, h2⟩
    · exact mul_le_right name ratio hn' (Or.inl h0)
    · exact mul_le_right name ratio hn' (Or.inr ⟨h1, h2, by omega⟩)
  · -- avg * (1 - ratio) ≤ 1 - ratio
    have havg : leNat (div (add birth death) (ofNat 2)) 1 := by
      have h2 := add_leNat birth death 1 1 hb hd
      generalize add birth death = t at *
      unfold div ofNat
      apply rnd_leNat _ _ _ (by positivity)
      unfold leNat at h2
      simp only [Nat.pow_zero, Nat.mul_one, Nat.one_mul]
      omega
    have havg' : (div (add birth death) (ofNat 2)).mant ≤ 2 ^ (div (add birth death) (ofNat 2)).frac := by
      unfold leNat at havg; simpa using havg
    rcases Nat.eq_or_lt_of_le hr' with heq | hlt
    · have hy : oneMinus ratio = ⟨0, 0⟩ := by unfold oneMinus; rw [heq]; simp [rnd]
      rw [hy]
      exact mul_le_right _ _ havg' (Or.inl rfl)
    · obtain ⟨f1, f2, _, f4, _⟩ := oneMinus_facts ratio hlt hrf
      exact mul_le_right _ _ havg' (Or.inr ⟨f1, f2, f4⟩)

theorem leNat_of_le_one (x : Dbl) (h : F64.le x one) : leNat x 1 := by
  unfold F64.le one at h; unfold leNat; simpa using h

/-- the running maximum of the name matrix stays in [0,1] -/
theorem nameSimilarityF_le_one (ns ms : List Str) (boost : Dbl) (pre : Nat) (hp : pre ≤ 10)
    (hlen : ∀ n ∈ ns, ∀ m ∈ ms, (Sim.comparedNames n m).1.length ≤ 2 ^ 1000) :
    leNat (nameSimilarityF ns ms boost pre) 1 := by
  unfold nameSimilarityF
  have inner : ∀ (n : Str) (l : List Str) (acc : Dbl), leNat acc 1 →
      (∀ m ∈ l, (Sim.comparedNames n m).1.length ≤ 2 ^ 1000) →
      leNat (l.foldl (fun acc m =>
        let s := stringSimilarityF n m boost pre
        if F64.lt acc s then s else acc) acc) 1 := by
    intro n l
    induction l with
    | nil => intro acc h _; simpa using h
    | cons m l ih =>
      intro acc h hl
      simp only [List.foldl_cons]
      apply ih
      · split
        · exact leNat_of_le_one _ (stringSimilarityF_bounds n m boost pre hp (hl m (by simp))).2
        · exact h
      · intro m' hm'; exact hl m' (by simp [hm'])
  have outer : ∀ (l : List Str) (acc : Dbl), leNat acc 1 →
      (∀ n ∈ l, ∀ m ∈ ms, (Sim.comparedNames n m).1.length ≤ 2 ^ 1000) →
      leNat (l.foldl (fun acc n => ms.foldl (fun acc m =>
        let s := stringSimilarityF n m boost pre
        if F64.lt acc s then s else acc) acc) acc) 1 := by
    intro l
    induction l with
    | nil => intro acc h _; simpa using h
    | cons n l ih =>
      intro acc h hl
      simp only [List.foldl_cons]
      apply ih
      · exact inner n ms acc h (hl n (by simp))
      · intro n' hn'; exact hl n' (by simp [hn'])
  exact outer ns ⟨0, 0⟩ (by simp [leNat]) hlen

theorem dateNodeSimilarityF_le_one (l r : Option Sim.DateR) (m : Dbl) :
    leNat (dateNodeSimilarityF l r m) 1 := by
  unfold dateNodeSimilarityF
  split
  · exact leNat_of_le_one _ (dateSimilarity_bounds _ _ _).2
  · simp [leNat, half]

/-- a ratio `float64(n)/float64(d)` in (0,1] with a denominator below 2^800 is a binary64 with 53
    significant bits and at most 900 fractional bits -/
theorem ofRat_shape (q : Rat) (h0 : 0 ≤ q) (h1 : q ≤ 1) (hd : q.den ≤ 2 ^ 800) :
    leNat (ofRat q) 1 ∧ (ofRat q).frac ≤ 900 ∧
    ((ofRat q).mant = 0 ∨ (2 ^ 52 ≤ (ofRat q).mant ∧ (ofRat q).mant ≤ 2 ^ 53)) := by
  unfold ofRat
  have hnum0 : 0 ≤ q.num := Rat.num_nonneg.mpr h0
  have hle : q.num.toNat ≤ q.den := by
    have : q.num ≤ q.den := by
      have h : (q.num : ℚ) / (q.den : ℚ) ≤ 1 := by rw [Rat.num_div_den]; exact h1
      have hdq : (0 : ℚ) < q.den := by exact_mod_cast q.den_pos
      rw [div_le_one hdq] at h
      exact_mod_cast h
    omega
  have hdpos : 0 < q.den := q.den_pos
  refine ⟨rnd_leNat _ _ 1 hdpos (by simpa using hle), ?_, ?_⟩
  · by_cases hn : q.num.toNat = 0
    · rw [hn]; simp [rnd]
    · rw [rnd_frac _ _ (by omega)]
      have : fracBits q.num.toNat q.den ≤ 852 := by
        apply fracBits_le
        calc 2 ^ 52 * q.den ≤ 2 ^ 52 * 2 ^ 800 := Nat.mul_le_mul_left _ hd
          _ = 1 * 2 ^ 852 := by rw [← Nat.pow_add]; simp
          _ ≤ q.num.toNat * 2 ^ 852 := Nat.mul_le_mul_right _ (by omega)
      omega
  · by_cases hn : q.num.toNat = 0
    · left; rw [hn]; simp [rnd]
    · right
      apply rnd_53_bits _ _ (by omega) hdpos
      · exact le_trans hd (Nat.pow_le_pow_right (by omega) (by omega))
      · calc q.num.toNat ≤ q.den := hle
          _ < 2 ^ 53 * q.den := by
            have : 1 * q.den < 2 ^ 53 * q.den := Nat.mul_lt_mul_of_pos_right (by norm_num) hdpos
            omega

/-- **Bounds**: `(*IndividualNode).Similarity` on the float64 values lies in [0,1] for a
    name/date ratio in [0,1], prefix sizes up to ten and names of any length Go can hold -/
theorem indiSimilarityF_bounds (x y : Sim.Indi) (o : Sim.SimOpts)
    (hr0 : 0 ≤ o.nameToDateRatio) (hr1 : o.nameToDateRatio ≤ 1)
    (hrd : o.nameToDateRatio.den ≤ 2 ^ 800) (hp : o.jaroPrefixSize ≤ 10)
    (hlen : ∀ n ∈ x.names, ∀ m ∈ y.names, (Sim.comparedNames n m).1.length ≤ 2 ^ 1000) :
    F64.le ⟨0, 0⟩ (indiSimilarityF x y o) ∧ F64.le (indiSimilarityF x y o) one := by
  refine ⟨zero_le _, ?_⟩
  obtain ⟨s1, s2, s3⟩ := ofRat_shape o.nameToDateRatio hr0 hr1 hrd
  have := mixF_le_one
    (nameSimilarityF x.names y.names (ofRat o.jaroBoostThreshold) o.jaroPrefixSize)
    (dateNodeSimilarityF x.birth y.birth (ofRat o.maxYears))
    (dateNodeSimilarityF x.death y.death (ofRat o.maxYears))
    (ofRat o.nameToDateRatio)
    (nameSimilarityF_le_one _ _ _ _ hp hlen)
    (dateNodeSimilarityF_le_one _ _ _) (dateNodeSimilarityF_le_one _ _ _) s1 s2 s3
  unfold indiSimilarityF
  simp only
  unfold leNat at this
  unfold F64.le one
  simpa using this

/-! ### The binary64 model is the regenerated source, rounding by rounding -/

open Gedcom.SimSrc in
/-- **`JaroWinkler`'s boost step in the model is the regenerated source expression, evaluated in
    float64 in the source's order**: the threshold guard and
    `j + 0.1*prefixMatch*(1.0-j)` as read from jaro.go by go/ast on this run. -/
theorem jwValueF_is_the_source (j boost : Dbl) (pm : Nat) (hj : leNat j 1) :
    jwValueF j boost pm =
      Generated.srcJaroWinkler.evalF (fun v => match v with
        | .j => j | .boost => boost | .pm => ofNat pm | _ => ⟨0, 0⟩) := by
  unfold leNat at hj
  simp only [Nat.one_mul] at hj
  unfold jwValueF Fn.evalF Generated.srcJaroWinkler
  simp only [List.find?, Guard.firesF, Cmp.holdsF, AExp.evalF]
  by_cases h : F64.le j boost
  · simp [h]; rfl
  · simp only [h, decide_false, litF]
    simp only [show ¬ (10 = 1) by decide, if_false, if_true]
    rw [absdiff_one j hj]
    rfl

open Gedcom.SimSrc in
/-- **`DateRange.Similarity` in the model is the regenerated source expression, evaluated in
    float64 in the source's order**: `math.Pow((left-right)/maxYears, 2)`, the `> 1` guard
    returning 0, and `1 - similarity`, as read from date_range.go on this run. -/
theorem dateSimilarity_is_the_source (l r m : Dbl) :
    dateSimilarity l r m =
      Generated.srcDateRange.evalF (fun v => match v with
        | .left => l | .right => r | .maxYears => m | _ => ⟨0, 0⟩) := by
  unfold dateSimilarity simOfDist Fn.evalF Generated.srcDateRange
  simp only [List.find?, Guard.firesF, Cmp.holdsF, AExp.evalF, litF, if_true]
  generalize mul (div (absdiff l r) m) (div (absdiff l r) m) = p
  have e1 : ofNat 1 = one := rfl
  rw [e1]
  by_cases h : F64.lt one p
  · simp [h]; rfl
  · simp only [h, decide_false]
    have hp : p.mant ≤ 2 ^ p.frac := by
      unfold F64.lt one at h; simpa using h
    rw [← e1, absdiff_one p hp]
    simp

open Gedcom.SimSrc in
/-- **The name/date mix of `(*IndividualNode).Similarity` in the model is the regenerated source
    expression, evaluated in float64 in the source's order**:
    `nameSimilarity*ratio + (birth+death)/2.0*(1.0-ratio)` as read from individual_node.go on
    this run (the nil guard returns the constant 0.5 = `half`). -/
theorem mixF_is_the_source (name birth death ratio : Dbl) :
    mixF name birth death ratio =
      Generated.srcIndividual.evalF (fun v => match v with
        | .name => name | .birth => birth | .death => death | .ratio => ratio | _ => ⟨0, 0⟩) ∧
    Generated.srcIndividual.nilValue = some (.lit 1 2) ∧
    F64.le (litF 1 2) half ∧ F64.le half (litF 1 2) := by
  refine ⟨?_, rfl, by decide +kernel, by decide +kernel⟩
  unfold mixF Fn.evalF Generated.srcIndividual
  simp only [List.find?, AExp.evalF, litF, if_true]

/-- **Operand order** of `(*DateNode).Similarity`, bit for bit -/
theorem dateNodeSimilarityF_symm (l r : Option Sim.DateR) (m : Dbl) :
    dateNodeSimilarityF l r m = dateNodeSimilarityF r l m := by
  unfold dateNodeSimilarityF
  cases l <;> cases r <;> simp [dateSimilarity_symm]

/-- **Missing information scores exactly the neutral 0.5** in float64 (`half` is the binary64
    0.5 itself, no rounding involved) -/
theorem dateNodeSimilarityF_missing (l r : Option Sim.DateR) (m : Dbl) (h : l = none ∨ r = none) :
    dateNodeSimilarityF l r m = half := by
  unfold dateNodeSimilarityF
  rcases h with h | h
  · subst h; cases r <;> rfl
  · subst h; cases l <;> rfl

/-- **Identity** of `(*DateNode).Similarity`: a date against itself scores one -/
theorem dateNodeSimilarityF_self (l : Sim.DateR) (m : Dbl) :
    F64.le one (dateNodeSimilarityF (some l) (some l) m) ∧
    F64.le (dateNodeSimilarityF (some l) (some l) m) one := by
  unfold dateNodeSimilarityF
  exact dateSimilarity_self _ m

/-- float64 addition is monotone in both operands -/
theorem add_mono (a a' b b' : Dbl) (ha : F64.le a a') (hb : F64.le b b') :
    F64.le (add a b) (add a' b') := by
  unfold add
  apply rnd_mono _ _ _ _ (by positivity) (by positivity)
  unfold F64.le at ha hb
  have h1 : a.mant * 2 ^ b.frac * 2 ^ (a'.frac + b'.frac) ≤ a'.mant * 2 ^ b'.frac * 2 ^ (a.frac + b.frac) := by
    calc a.mant * 2 ^ b.frac * 2 ^ (a'.frac + b'.frac)
        = (a.mant * 2 ^ a'.frac) * (2 ^ b.frac * 2 ^ b'.frac) := by rw [Nat.pow_add]; ring
      _ ≤ (a'.mant * 2 ^ a.frac) * (2 ^ b.frac * 2 ^ b'.frac) := Nat.mul_le_mul_right _ ha
      _ = a'.mant * 2 ^ b'.frac * 2 ^ (a.frac + b.frac) := by rw [Nat.pow_add]; ring
  have h2 : b.mant * 2 ^ a.frac * 2 ^ (a'.frac + b'.frac) ≤ b'.mant * 2 ^ a'.frac * 2 ^ (a.frac + b.frac) := by
    calc b.mant * 2 ^ a.frac * 2 ^ (a'.frac + b'.frac)
        = (b.mant * 2 ^ b'.frac) * (2 ^ a.frac * 2 ^ a'.frac) := by rw [Nat.pow_add]; ring
      _ ≤ (b'.mant * 2 ^ b.frac) * (2 ^ a.frac * 2 ^ a'.frac) := Nat.mul_le_mul_right _ hb
      _ = b'.mant * 2 ^ a'.frac * 2 ^ (a.frac + b.frac) := by rw [Nat.pow_add]; ring
  calc (a.mant * 2 ^ b.frac + b.mant * 2 ^ a.frac) * 2 ^ (a'.frac + b'.frac)
      = a.mant * 2 ^ b.frac * 2 ^ (a'.frac + b'.frac) + b.mant * 2 ^ a.frac * 2 ^ (a'.frac + b'.frac) := by ring
    _ ≤ a'.mant * 2 ^ b'.frac * 2 ^ (a.frac + b.frac) + b'.mant * 2 ^ a'.frac * 2 ^ (a.frac + b.frac) :=
        Nat.add_le_add h1 h2
    _ = (a'.mant * 2 ^ b'.frac + b'.mant * 2 ^ a'.frac) * 2 ^ (a.frac + b.frac) := by ring

/-- float64 multiplication (of non-negative values) is monotone in both operands -/
theorem mul_mono (a a' b b' : Dbl) (ha : F64.le a a') (hb : F64.le b b') :
    F64.le (mul a b) (mul a' b') := by
  unfold mul
  apply rnd_mono _ _ _ _ (by positivity) (by positivity)
  unfold F64.le at ha hb
  calc a.mant * b.mant * 2 ^ (a'.frac + b'.frac)
      = (a.mant * 2 ^ a'.frac) * (b.mant * 2 ^ b'.frac) := by rw [Nat.pow_add]; ring
    _ ≤ (a'.mant * 2 ^ a.frac) * (b'.mant * 2 ^ b.frac) := Nat.mul_le_mul ha hb
    _ = a'.mant * b'.mant * 2 ^ (a.frac + b.frac) := by rw [Nat.pow_add]; ring

/-- the weighted sum is monotone in the four components: a better component never lowers the
    float64 weighted similarity -/
theorem weightedF_mono (i i' p p' s s' c c' wI wP wS wC : Dbl)
    (hi : F64.le i i') (hp : F64.le p p') (hs : F64.le s s') (hc : F64.le c c') :
    F64.le (weightedF i p s c wI wP wS wC) (weightedF i' p' s' c' wI wP wS wC) := by
  have hw : ∀ w : Dbl, F64.le w w := fun w => by unfold F64.le; exact Nat.le_refl _
  have hsum : F64.le (weightedSumF i p s c wI wP wS wC) (weightedSumF i' p' s' c' wI wP wS wC) := by
    unfold weightedSumF
    exact add_mono _ _ _ _ (add_mono _ _ _ _ (add_mono _ _ _ _ (mul_mono _ _ _ _ hi (hw _))
      (mul_mono _ _ _ _ hp (hw _))) (mul_mono _ _ _ _ hs (hw _))) (mul_mono _ _ _ _ hc (hw _))
  unfold weightedF
  by_cases h' : F64.lt one (weightedSumF i' p' s' c' wI wP wS wC)
  · rw [if_pos h']
    split
    · unfold F64.le; exact Nat.le_refl _
    · rename_i h; rw [le_iff_toQ]; rw [lt_iff_toQ] at h; exact not_lt.mp h
  · rw [if_neg h']
    have : ¬ F64.lt one (weightedSumF i p s c wI wP wS wC) := by
      rw [lt_iff_toQ] at h' ⊢; rw [le_iff_toQ] at hsum
      exact not_lt.mpr (le_trans hsum (not_lt.mp h'))
    rw [if_neg this]; exact hsum

/-! ### Operand order of `(*IndividualNode).Similarity` on the float64 values -/

/-- the running maximum over a list: an upper bound of the start value and of every element, and
    attained by one of them -/
theorem maxFold_spec {α : Type} (f : α → Dbl) (l : List α) (acc : Dbl) :
    let r := l.foldl (fun acc m => if F64.lt acc (f m) then f m else acc) acc
    F64.le acc r ∧ (∀ m ∈ l, F64.le (f m) r) ∧ (r = acc ∨ ∃ m ∈ l, r = f m) := by
  induction l generalizing acc with
  | nil => simp [F64.le]
  | cons a l ih =>
    simp only [List.foldl_cons]
    by_cases h : F64.lt acc (f a)
    · rw [if_pos h]
      obtain ⟨h1, h2, h3⟩ := ih (f a)
      refine ⟨?_, ?_, ?_⟩
      · rw [le_iff_toQ] at h1 ⊢; rw [lt_iff_toQ] at h; exact le_trans h.le h1
      · intro m hm
        rcases List.mem_cons.mp hm with e | e
        · rw [e]; exact h1
        · exact h2 m e
      · rcases h3 with e | ⟨m, hm, e⟩
        · right; exact ⟨a, by simp, e⟩
        · right; exact ⟨m, by simp [hm], e⟩
    · rw [if_neg h]
      obtain ⟨h1, h2, h3⟩ := ih acc
      refine ⟨h1, ?_, ?_⟩
      · intro m hm
        rcases List.mem_cons.mp hm with e | e
        · rw [e]; rw [le_iff_toQ] at h1 ⊢; rw [lt_iff_toQ] at h; exact le_trans (not_lt.mp h) h1
        · exact h2 m e
      · rcases h3 with e | ⟨m, hm, e⟩
        · left; exact e
        · right; exact ⟨m, by simp [hm], e⟩

/-- the outer fold of the name matrix never falls below its start value -/
theorem nameFold_ge_start (ns ms : List Str) (boost : Dbl) (pre : Nat) (z : Dbl) :
    F64.le z (ns.foldl (fun acc n => ms.foldl (fun acc m =>
        let s := stringSimilarityF n m boost pre
        if F64.lt acc s then s else acc) acc) z) := by
  induction ns generalizing z with
  | nil => simp [F64.le]
  | cons n ns ih =>
    simp only [List.foldl_cons]
    have a := (maxFold_spec (fun m => stringSimilarityF n m boost pre) ms z).1
    exact le_trans' a (ih _)

/-- the name score: an upper bound of every pair's score, and the start value or attained by a
    pair -/
theorem nameFold_spec (ns ms : List Str) (boost : Dbl) (pre : Nat) (z : Dbl) :
    let r := ns.foldl (fun acc n => ms.foldl (fun acc m =>
        let s := stringSimilarityF n m boost pre
        if F64.lt acc s then s else acc) acc) z
    (∀ n ∈ ns, ∀ m ∈ ms, F64.le (stringSimilarityF n m boost pre) r) ∧
    (r = z ∨ ∃ n ∈ ns, ∃ m ∈ ms, r = stringSimilarityF n m boost pre) := by
  induction ns generalizing z with
  | nil => simp
  | cons n ns ih =>
    simp only [List.foldl_cons]
    obtain ⟨_, i2, i3⟩ := maxFold_spec (fun m => stringSimilarityF n m boost pre) ms z
    obtain ⟨j1, j2⟩ := ih (ms.foldl (fun acc m =>
      let s := stringSimilarityF n m boost pre
      if F64.lt acc s then s else acc) z)
    have hstart := nameFold_ge_start ns ms boost pre (ms.foldl (fun acc m =>
      let s := stringSimilarityF n m boost pre
      if F64.lt acc s then s else acc) z)
    refine ⟨?_, ?_⟩
    · intro n' hn' m hm
      rcases List.mem_cons.mp hn' with e | e
      · rw [e]; exact le_trans' (i2 m hm) hstart
      · exact j1 n' e m hm
    · rcases j2 with e | ⟨n', hn', m, hm, e⟩
      · rcases i3 with e' | ⟨m, hm, e'⟩
        · left; rw [e]; exact e'
        · right; exact ⟨n, by simp, m, hm, by rw [e]; exact e'⟩
      · right; exact ⟨n', by simp [hn'], m, hm, e⟩

/-- **Operand order of the name score** on the float64 values: the same value in both directions
    (the maximum of the same scores, each symmetric bit for bit) -/
theorem nameSimilarityF_symm_value (ns ms : List Str) (boost : Dbl) (pre : Nat) :
    F64.le (nameSimilarityF ns ms boost pre) (nameSimilarityF ms ns boost pre) := by
  unfold nameSimilarityF
  obtain ⟨_, a2⟩ := nameFold_spec ns ms boost pre ⟨0, 0⟩
  obtain ⟨b1, _⟩ := nameFold_spec ms ns boost pre ⟨0, 0⟩
  rcases a2 with e | ⟨n, hn, m, hm, e⟩
  · rw [e]; exact zero_le _
  · rw [e, stringSimilarityF_symm n m boost pre]
    exact b1 m hm n hn

theorem le_refl' (w : Dbl) : F64.le w w := by unfold F64.le; exact Nat.le_refl _

/-- **Operand order of `(*IndividualNode).Similarity`** on the float64 values: swapping the two
    individuals gives the same value (`≤` in both directions, hence equal as values): the date
    scores are equal bit for bit, the name score is the maximum of the same symmetric scores, and
    the mix is monotone in it -/
theorem indiSimilarityF_symm_value (x y : Sim.Indi) (o : Sim.SimOpts) :
    F64.le (indiSimilarityF x y o) (indiSimilarityF y x o) := by
  unfold indiSimilarityF
  simp only
  rw [dateNodeSimilarityF_symm y.birth x.birth, dateNodeSimilarityF_symm y.death x.death]
  unfold mixF
  exact add_mono _ _ _ _
    (mul_mono _ _ _ _ (nameSimilarityF_symm_value x.names y.names _ _) (le_refl' _)) (le_refl' _)

/-! ### The float64 `Minimum()` that selects the estimated dates -/

/-- the fold of `minimumRangeF`: the result is the accumulator or an element of the list, and no
    element seen (nor the accumulator) has a strictly smaller float64 start -/
theorem minimumF_fold (ds : List Gedcom.DateRange) (d : Gedcom.DateRange) :
    let m := ds.foldl (fun m x =>
      if F64.lt (years x.start.toDate) (years m.start.toDate) then x else m) d
    (m = d ∨ m ∈ ds) ∧
    ¬ F64.lt (years d.start.toDate) (years m.start.toDate) ∧
    ∀ x ∈ ds, ¬ F64.lt (years x.start.toDate) (years m.start.toDate) := by
  induction ds generalizing d with
  | nil => simp [F64.lt]
  | cons a ds ih =>
    simp only [List.foldl_cons]
    by_cases h : F64.lt (years a.start.toDate) (years d.start.toDate)
    · rw [if_pos h]
      obtain ⟨h1, h2, h3⟩ := ih a
      refine ⟨?_, ?_, ?_⟩
      · rcases h1 with e | e
        · right; rw [e]; simp
        · right; simp [e]
      · -- d is above a, a is not below the result: d is not below the result
        intro hd
        rw [lt_iff_toQ] at h hd h2
        exact h2 (lt_trans h hd)
      · intro x hx
        rcases List.mem_cons.mp hx with e | e
        · rw [e]; exact h2
        · exact h3 x e
    · rw [if_neg h]
      obtain ⟨h1, h2, h3⟩ := ih d
      refine ⟨?_, h2, ?_⟩
      · rcases h1 with e | e
        · left; exact e
        · right; simp [e]
      · intro x hx
        rcases List.mem_cons.mp hx with e | e
        · rw [e]
          intro ha
          -- a below the result, the result not above d ... the result is d or later; use h
          rw [lt_iff_toQ] at h ha h2
          exact h (lt_of_lt_of_le ha (not_lt.mp h2))
        · exact h3 x e

/-- **`Minimum()` on the float64 values**: the date selected is one of the list and no date of
    the list starts strictly earlier on the float64 Years scale (ties keep the earlier entry — the
    last bit decides, as in Go) -/
theorem minimumRangeF_spec (ds : List Gedcom.DateRange) (m : Gedcom.DateRange)
    (h : minimumRangeF ds = some m) :
    m ∈ ds ∧ ∀ x ∈ ds, ¬ F64.lt (years x.start.toDate) (years m.start.toDate) := by
  cases ds with
  | nil => simp [minimumRangeF] at h
  | cons d ds =>
    simp only [minimumRangeF, Option.some.injEq] at h
    obtain ⟨h1, h2, h3⟩ := minimumF_fold ds d
    rw [h] at h1 h2 h3
    refine ⟨?_, ?_⟩
    · rcases h1 with e | e
      · rw [e]; simp
      · simp [e]
    · intro x hx
      rcases List.mem_cons.mp hx with e | e
      · rw [e]; exact h2
      · exact h3 x e

/-! ### `WeightedSimilarity` on the float64 values -/

/-- **Bounds**: the float64 weighted similarity never exceeds one (the source cuts the sum) -/
theorem weightedF_le_one (ind par spo chi wI wP wS wC : Dbl) :
    F64.le (weightedF ind par spo chi wI wP wS wC) one := by
  unfold weightedF
  split
  · unfold F64.le one; simp
  · rename_i h
    rw [le_iff_toQ]; rw [lt_iff_toQ] at h; exact not_lt.mp h

/-- the pre-repair rule at the witness: with all four components equal to one and the weights
    0.4, 0.2, 0.3, 0.1 (which sum to one on paper) the float64 sum of the products is
    1.0000000000000002 — above one — which is what `WeightedSimilarity` returned before the cut -/
theorem weighted_sum_exceeds_one_regression :
    F64.lt one (weightedSumF one one one one (rnd 4 10) (rnd 2 10) (rnd 3 10) (rnd 1 10)) := by
  decide +kernel

open Gedcom.SimSrc in
/-- **`WeightedSimilarity` in the model is the regenerated source, evaluated in float64 in the
    source's order** (four products, three additions from the left, the `> 1` guard) -/
theorem weightedF_is_the_source (ind par spo chi wI wP wS wC : Dbl) :
    weightedF ind par spo chi wI wP wS wC =
      Generated.srcWeighted.evalF (fun v => match v with
        | .ind => ind | .par => par | .spo => spo | .chi => chi
        | .wInd => wI | .wPar => wP | .wSpo => wS | .wChi => wC | _ => ⟨0, 0⟩) := by
  unfold weightedF weightedSumF Fn.evalF Generated.srcWeighted
  simp only [List.find?, Guard.firesF, Cmp.holdsF, AExp.evalF, litF, if_true]
  have e1 : ofNat 1 = one := rfl
  rw [e1]
  split <;> rename_i h <;> simp [h] <;> rfl

end Gedcom.C12F
