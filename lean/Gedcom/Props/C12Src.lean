/-
  C12 — the arithmetic of the scores is the arithmetic of the Go source.
  `Generated.SimilaritySrc` is written on every run by harness/extract_similaritysrc.go from the
  go/ast of `WeightedSimilarity`, `(*IndividualNode).Similarity`, `DateRange.Similarity`,
  `(*DateNode).Similarity` and `JaroWinkler`: statement kinds in order, nil guard, threshold
  guards and the returned expression, local definitions inlined.  The obligations pin the
  statement sequence and reject anything outside the fragment; the theorems prove, for all
  operand values, that interpreting the translated expressions over `Rat` is the hand-written
  model of Model/Similarity.lean (about which C12.lean proves bounds, symmetry, identity …).
-/
import Gedcom.Model.Similarity
import Gedcom.Generated.SimilaritySrc
namespace Gedcom.C12
open Gedcom Gedcom.Sim Gedcom.SimSrc

/-! ## obligations on the regenerated facts -/

/-- every translated function lies inside the fragment (no `.bad` expression, no statement of an
    unknown kind) and has exactly the statement sequence the model was written against -/
theorem similarity_source_shape :
    Generated.srcWeighted.ok = true ∧ Generated.srcIndividual.ok = true ∧ Generated.srcDateRange.ok = true ∧
    Generated.srcDateNode.ok = true ∧ Generated.srcJaroWinkler.ok = true ∧
    Generated.srcWeighted.shape = ["let:individual", "let:parents", "let:spouses", "let:children", "let:total",
      "guard", "ret"] ∧
    Generated.srcIndividual.shape = ["nil-guard", "let:nameSimilarity", "loop:nameSimilarity",
      "input:leftEstimatedBirthDate,_", "input:rightEstimatedBirthDate,_", "input:birthSimilarity",
      "input:leftEstimatedDeathDate,_", "input:rightEstimatedDeathDate,_", "input:deathSimilarity",
      "let:nameSimilarityRatio", "let:avgBirthDeathSimilarity", "let:inverseRatio", "ret"] ∧
    Generated.srcDateRange.shape = ["input:leftYears", "input:rightYears", "let:yearsApart", "let:similarity", "guard", "ret"] ∧
    Generated.srcDateNode.shape = ["nil-guard", "ret"] ∧
    Generated.srcJaroWinkler.shape = ["input:j", "guard", "input:aLen", "input:bLen", "input:prefixSize",
      "decl:prefixMatch", "loop:prefixMatch", "ret"] := by
  decide

/-! ## the model is the source -/

theorem lit11 : (1 : Rat) / 1 = 1 := by decide +kernel
theorem lit01 : (0 : Rat) / 1 = 0 := by decide +kernel
theorem lit21 : (2 : Rat) / 1 = 2 := by decide +kernel

def envWeighted (s : SurrSim) : Var → Rat
  | .ind => s.individual | .par => s.parents | .spo => s.spouses | .chi => s.children
  | .wInd => s.opts.individualWeight | .wPar => s.opts.parentsWeight
  | .wSpo => s.opts.spousesWeight | .wChi => s.opts.childrenWeight
  | _ => 0

/-- `weightedSimilarity` is the translated `WeightedSimilarity`, for every component and weight -/
theorem weighted_is_the_source (s : SurrSim) :
    weightedSimilarityC s = Generated.srcWeighted.eval (envWeighted s) := by
  unfold weightedSimilarityC
  by_cases h : weightedSimilarity s > 1
  · have : (s.individual * s.opts.individualWeight + s.parents * s.opts.parentsWeight +
        s.spouses * s.opts.spousesWeight + s.children * s.opts.childrenWeight) > 1 := h
    simp [Generated.srcWeighted, Fn.eval, AExp.eval, envWeighted, Guard.fires, Cmp.holds, lit11, h, this]
  · have : ¬ (s.individual * s.opts.individualWeight + s.parents * s.opts.parentsWeight +
        s.spouses * s.opts.spousesWeight + s.children * s.opts.childrenWeight) > 1 := h
    simp [Generated.srcWeighted, Fn.eval, AExp.eval, envWeighted, Guard.fires, Cmp.holds, lit11, h, this,
      weightedSimilarity]

/-- in exact arithmetic the cut at one never applies when the sum is at most one (which
    `weighted_bounds` proves for valid options and components in [0,1]) -/
theorem weightedC_eq (s : SurrSim) (h : weightedSimilarity s ≤ 1) :
    weightedSimilarityC s = weightedSimilarity s := by
  unfold weightedSimilarityC
  have : ¬ weightedSimilarity s > 1 := Rat.not_lt.mpr h
  simp [this]

def envIndividual (name birth death ratio : Rat) : Var → Rat
  | .name => name | .birth => birth | .death => death | .ratio => ratio | _ => 0

/-- the name/date mix of `indiSimilarity` is the translated return expression of
    `(*IndividualNode).Similarity`, and the score of a missing individual is its nil guard -/
theorem individual_is_the_source (x y : Option Indi) (o : SimOpts) :
    some (individualSimilarity x y o) =
      match x, y with
      | some x, some y => some (Generated.srcIndividual.eval (envIndividual (nameSimilarity x.names y.names o)
          (dateSimilarity x.birth y.birth o.maxYears) (dateSimilarity x.death y.death o.maxYears) o.nameToDateRatio))
      | _, _ => Generated.srcIndividual.nilEval (fun _ => 0) := by
  cases x <;> cases y <;>
    simp [individualSimilarity, indiSimilarity, Generated.srcIndividual, Fn.eval, Fn.nilEval, AExp.eval, envIndividual,
      lit11, lit21]

def envDate (l r m : Rat) : Var → Rat
  | .left => l | .right => r | .maxYears => m | _ => 0

/-- `yearsSimilarity` is the translated `DateRange.Similarity`: parabola, `> 1 → 0` cut-off in
    source order, for all year values and every MaxYears -/
theorem date_parabola_is_the_source (l r m : Rat) :
    yearsSimilarity l r m = Generated.srcDateRange.eval (envDate l r m) := by
  unfold yearsSimilarity
  by_cases h : (l - r) / m * ((l - r) / m) > 1
  · simp [Generated.srcDateRange, Fn.eval, List.find?, Guard.fires, Cmp.holds, AExp.eval, envDate, lit11, lit01, h]
  · simp [Generated.srcDateRange, Fn.eval, List.find?, Guard.fires, Cmp.holds, AExp.eval, envDate, lit11, lit01, h]

/-- `dateSimilarity` is the translated `(*DateNode).Similarity`: the nil guard (one half), else
    the delegated range similarity -/
theorem date_node_is_the_source (l r : Option DateR) (m : Rat) :
    some (dateSimilarity l r m) =
      match l, r with
      | some l, some r => some (Generated.srcDateNode.eval (fun _ => rangeSimilarity l r m))
      | _, _ => Generated.srcDateNode.nilEval (fun _ => 0) := by
  cases l <;> cases r <;> simp [dateSimilarity, Generated.srcDateNode, Fn.eval, Fn.nilEval, AExp.eval]

def envJW (j boost pm : Rat) : Var → Rat
  | .j => j | .boost => boost | .pm => pm | _ => 0

/-- `jaroWinkler` is the translated `JaroWinkler`: the `j <= boostThreshold` test first, then
    `j + 0.1*prefixMatch*(1.0-j)`, for all strings, thresholds and prefix sizes -/
theorem jaroWinkler_is_the_source (a b : Str) (boost : Rat) (p : Nat) :
    jaroWinkler a b boost p =
      Generated.srcJaroWinkler.eval (envJW (jaro a b) boost (prefixMatches p a b : Rat)) := by
  unfold jaroWinkler
  by_cases h : jaro a b ≤ boost
  · simp [Generated.srcJaroWinkler, Fn.eval, List.find?, Guard.fires, Cmp.holds, AExp.eval, envJW, lit11, h]
  · simp [Generated.srcJaroWinkler, Fn.eval, List.find?, Guard.fires, Cmp.holds, AExp.eval, envJW, lit11, h]

end Gedcom.C12
