/-
  C18 — File content can never change the structure of a published page.
  Property theorems only.  They are about the functions the driver executes (`render`,
  `renderText`, `escapeString`, `encode`, `lexHtml`, `wellNested`) and about the encoder tables
  regenerated from html/core on every run (`Generated.*EscTable`): a sink that stops escaping
  changes its table and `encode_safe` no longer checks.

  Data = every value that reaches a page through `core.Text`, a `core.Tag` attribute value,
  `core.Anchor` or `core.TableHead` (and the page title).  All statements quantify over *all*
  byte strings in those positions and all component trees.
-/
import Gedcom.Lemmas.Html
import Gedcom.Model.HtmlSinks
import Gedcom.Lemmas.Rewrite
namespace Gedcom.C18
open Gedcom Gedcom.Html

/-- `core.Text` never writes `<`, `>`, `"` or `'`, whatever the value -/
theorem escape_safe (s : Str) (b : UInt8) (h : b ∈ renderText s) :
    b ≠ 60 ∧ b ≠ 62 ∧ b ≠ 34 ∧ b ≠ 39 := by
  have := renderText_safe s b h
  have h3 := hot_ne this.1
  exact ⟨h3.1, h3.2.1, h3.2.2, this.2⟩

/-- no encoder in front of a data sink (text, table head, anchor, tag attribute) writes `<`, `>`
    or `"` — so a value can neither open or close a tag nor leave a double-quoted attribute -/
theorem encode_safe (e : Enc) (v : Str) (b : UInt8) (h : b ∈ encode e v) :
    b ≠ 60 ∧ b ≠ 62 ∧ b ≠ 34 := hot_ne (Html.encode_safe e v b h)

/-- `&` only ever appears as the start of `&#34;` `&amp;` `&#39;` `&lt;` `&gt;` -/
theorem escape_amp (s : Str) : Escaped (escapeString s) := by
  induction s with
  | nil => exact .nil
  | cons x xs ih =>
    rw [escapeString_cons, escByte_head_eq]
    by_cases h1 : x = 34
    · simp only [h1, if_true]; exact .entity [38, 35, 51, 52, 59] _ (by simp [entities]) ih
    by_cases h2 : x = 38
    · simp only [h2]; exact .entity [38, 97, 109, 112, 59] _ (by simp [entities]) ih
    by_cases h3 : x = 39
    · simp only [h3]; exact .entity [38, 35, 51, 57, 59] _ (by simp [entities]) ih
    by_cases h4 : x = 60
    · simp only [h4]; exact .entity [38, 108, 116, 59] _ (by simp [entities]) ih
    by_cases h5 : x = 62
    · simp only [h5]; exact .entity [38, 103, 116, 59] _ (by simp [entities]) ih
    simp only [h1, h2, h3, h4, h5, if_false]
    exact .plain x _ h2 h4 h5 h1 h3 ih

/-- `html.EscapeString` is injective: distinct values stay distinct on the page -/
theorem escape_injective (a b : Str) (h : escapeString a = escapeString b) : a = b := by
  induction a generalizing b with
  | nil =>
    cases b with
    | nil => rfl
    | cons y ys =>
      exfalso
      rw [escapeString_cons] at h
      have : escByte Generated.headEscTable y = [] := by
        have := congrArg List.length h
        simp [escapeString, escWith] at this
        exact List.eq_nil_of_length_eq_zero (by omega)
      exact escByte_head_ne_nil y this
  | cons x xs ih =>
    cases b with
    | nil =>
      exfalso
      rw [escapeString_cons] at h
      have : escByte Generated.headEscTable x = [] := by
        have := congrArg List.length h
        simp [escapeString, escWith] at this
        exact this.1
      exact escByte_head_ne_nil x this
    | cons y ys =>
      rw [escapeString_cons, escapeString_cons] at h
      obtain ⟨hxy, hr⟩ := escByte_cancel x y _ _ h
      rw [hxy, ih ys hr]

/-! #### `&` in the output of `core.Text` (with its `&nbsp;` marker dance) -/

/-- **`&` in `core.Text` output** only ever starts `&#34;` `&amp;` `&#39;` `&lt;` `&gt;` or
    `&nbsp;`, and none of `< > " '` occurs — for every value -/
theorem text_amp (s : Str) : EscapedWith textEntities (renderText s) := by
  obtain ⟨ho, _, _, _, htbl⟩ := marker_facts
  unfold renderText
  have hne : Generated.textReplaceAfter.1.isEmpty = false := by rw [ho]; rfl
  simp only [replaceAll, hne]
  rw [htbl]
  exact replace_marker_escaped _ _ (Nat.le_refl _) (escape_amp _)

/-- `core.Text` is *not* injective: its `&nbsp;` marker and `&nbsp;` itself render alike
    (content only — no structure involved) -/
theorem text_not_injective_counterexample :
    renderText b!"~~space~~" = renderText b!"&nbsp;" ∧ (b!"~~space~~" : Str) ≠ b!"&nbsp;" := by
  decide

/-- `RawSinksTrusted` never looks at a data value -/
theorem trusted_shape (c : Comp) : trusted (shape c) = trusted c := by
  induction c with
  | nil => rfl
  | seq a b iha ihb => simp [shape, trusted, iha, ihb]
  | text s => rfl
  | raw s => rfl
  | anchor n => exact (leafOk_congr (pieces_erase (.anchor n))).symm
  | tableHead cols => exact (leafOk_congr (head_erase cols)).symm
  | number n => rfl
  | ga id => rfl
  | tag n a b ih =>
    simp only [shape, trusted, ih]
    rw [wrapOk_congr (pre_erase (.tag n a b)) (post_erase (.tag n a b))]; rfl
  | tableCell h c w s b ih => simp only [shape, trusted, ih]; rfl
  | table c b ih => simp only [shape, trusted, ih]; rfl
  | tableRow b ih => simp only [shape, trusted, ih]; rfl
  | row b ih => simp only [shape, trusted, ih]; rfl
  | page t g b f ihb ihf =>
    simp only [shape, trusted, ihb, ihf]
    rw [wrapOk_congr (pre_erase (.page t g b f)) (post_erase (.page t g b f))]; rfl

/-- **Well-nestedness.**  If the literal bytes of every node form complete, fitting tags
    (`trusted`: tag names, attribute names, raw HTML and the raw class/style/id sinks — never a
    data value), then the rendered bytes are well-nested HTML, whatever the data. -/
theorem render_wellNested (c : Comp) (h : trusted c = true) : wellNested (render c) = true := by
  obtain ⟨ts, hr, hc⟩ := balanced_of_trusted c h
  have hl := runPieces_sound _ _ _ _ hr
  unfold wellNested
  rw [lexHtml_eq]
  unfold render
  rw [hl]
  simp [hc []]

/-- **Structure is independent of data.**  Two component trees that differ only in data values
    (text, attribute values, anchor names, table-head columns, page title) produce the same
    token stream — same tags, same attribute names, same nesting: no value can open or close a
    tag or leave its attribute. -/
theorem structure_preserved (c c' : Comp) (hs : shape c' = shape c) (h : trusted c = true) :
    skeleton (render c') = skeleton (render c) := by
  obtain ⟨ts, hr, _⟩ := balanced_of_trusted c h
  have hr' : runPieces .data (pieces c') = some (.data, ts) := by
    rw [← runPieces_erase, pieces_erase, hs, ← pieces_erase, runPieces_erase]; exact hr
  unfold skeleton render
  rw [lexHtml_eq, lexHtml_eq, runPieces_sound _ _ _ _ hr, runPieces_sound _ _ _ _ hr']

/-- the tail-recursive tokenizer the driver runs is the one-step-per-byte specification -/
theorem lexHtml_spec (s : Str) : lexHtml s = lexRun .data s := lexHtml_eq s

/-! ### The fixed parts of every page are trusted (checked on the regenerated literals) -/

theorem page_frame_trusted (t : Str) : trusted (mkPage t .nil []) = true := by
  rw [← trusted_shape]
  show trusted (mkPage [] .nil []) = true
  decide +kernel
theorem ga_trusted : trusted (.ga b!"UA-78454410-2") = true := by decide +kernel
theorem constants_trusted :
    trusted empty = true ∧ trusted lineBreak = true ∧ trusted horizontalRule = true ∧
    trusted horizontalRuleRow = true ∧ trusted space = true ∧ trusted footerRow = true := by
  decide +kernel
theorem anchor_trusted (n : Str) : trusted (.anchor n) = true := by
  rw [← trusted_shape]; rfl
theorem leafOk_of_balanced {ps : List Piece} (h : Balanced ps) : leafOk ps = true := by
  obtain ⟨ts, hr, hc⟩ := h
  simp [leafOk, hr, hc []]

/-- a table head is trusted whatever its columns hold (they are data since the escaping fix) -/
theorem tableHead_trusted (cols : List Str) : trusted (.tableHead cols) = true := by
  show leafOk (headPieces cols) = true
  apply leafOk_of_balanced
  have hmid : Balanced (cols.flatMap fun c => fmtPieces Generated.headCellFmt [.data .head c]) := by
    induction cols with
    | nil => exact Balanced.nil
    | cons c cs ih => simp only [List.flatMap_cons]; exact Balanced.append (headCell_balanced c) ih
  exact Balanced.wrap (pre := [lit Generated.headPre]) (post := [lit Generated.headPost])
    (by decide +kernel) hmid

/-- a number is trusted whatever its value (counts depend on the file) -/
theorem number_trusted (n : Int) : trusted (.number n) = true := by
  have hno : ∀ b ∈ renderNumber n, b ≠ 60 := by
    intro b hb
    unfold renderNumber at hb
    have hbody : ∀ x ∈ (groupRev (natToDec n.natAbs).reverse).reverse, x ≠ 60 := by
      intro x hx
      rw [List.mem_reverse] at hx
      rcases groupRev_mem _ x hx with h | h
      · rw [List.mem_reverse] at h; exact natToDecF_digits _ _ x h
      · subst h; decide
    split at hb
    · rcases List.mem_cons.mp hb with h | h
      · subst h; decide
      · exact hbody b h
    · exact hbody b hb
  show leafOk [lit (renderNumber n)] = true
  simp [leafOk, runPieces, lit, lexRun_data_stay _ hno, chk]

/-- every piece of raw HTML package html writes itself (`<em>Unknown</em>`, `<em>Hidden</em>`,
    `&nbsp;&nbsp;&nbsp;`, the 16 PlusSVG drawings — regenerated from the source) is trusted -/
theorem html_literals_trusted : ∀ s ∈ Generated.htmlRawLiterals, trusted (.raw s) = true := by
  decide +kernel

/-- the `<pre>` … `</pre>` frame of the query formatter's JSON fallback fits around any content
    that stays in element content -/
theorem query_pre_frame_ok :
    wrapOk [lit Generated.queryPreOpen] [lit Generated.queryPreClose] = true := by decide +kernel

/-! ### The composite components of html/core keep trust: they add fixed tags around their
     children and put their string arguments in data positions only -/

theorem div_trusted (cls : Str) (b : Comp) : trusted (div cls b) = trusted b := by
  unfold div mkTag
  cases cls with
  | nil => exact tag0_ok b!"div" b (by decide +kernel)
  | cons c cs => exact tag1_ok b!"div" b!"class" (c :: cs) b (by decide +kernel)

theorem span_trusted (cls : Str) (b : Comp) : trusted (span cls b) = trusted b := by
  unfold span mkTag
  cases cls with
  | nil => exact tag0_ok b!"span" b (by decide +kernel)
  | cons c cs => exact tag1_ok b!"span" b!"class" (c :: cs) b (by decide +kernel)

theorem column_trusted (w : Int) (b : Comp) : trusted (column w b) = trusted b := div_trusted _ b

theorem badgePill_trusted (color cls : Str) (v : Comp) : trusted (badgePill color cls v) = trusted v :=
  span_trusted _ v

theorem link_trusted (body : Comp) (dest style : Str) : trusted (link body dest style) = trusted body := by
  unfold link mkTag
  cases dest with
  | nil =>
    cases style with
    | nil => exact tag0_ok b!"a" body (by decide +kernel)
    | cons c cs => exact tag1_ok b!"a" b!"style" (c :: cs) body (by decide +kernel)
  | cons d ds =>
    cases style with
    | nil => exact tag1_ok b!"a" b!"href" (d :: ds) body (by decide +kernel)
    | cons c cs => exact tag2_ok b!"a" b!"href" (d :: ds) b!"style" (c :: cs) body (by decide +kernel)

/-- `h1` … `h6` (the code uses 1, 2, 3 and 5) -/
theorem heading_trusted (n : Nat) (hn : 1 ≤ n ∧ n ≤ 6) (cls : Str) (b : Comp) :
    trusted (heading (n : Int) cls b) = trusted b := by
  have h0 : ∀ m : Nat, m < 7 → 1 ≤ m →
      wrapOk (tagOpen (b!"h" ++ itoa (m : Int)) []) (tagClose (b!"h" ++ itoa (m : Int))) = true := by
    decide +kernel
  have h1 : ∀ m : Nat, m < 7 → 1 ≤ m →
      wrapOk (tagOpen (b!"h" ++ itoa (m : Int)) [(b!"class", [])]) (tagClose (b!"h" ++ itoa (m : Int))) = true := by
    decide +kernel
  unfold heading mkTag
  cases cls with
  | nil => exact tag0_ok _ b (h0 n (by omega) hn.1)
  | cons c cs => exact tag1_ok _ b!"class" (c :: cs) b (h1 n (by omega) hn.1)

theorem card_trusted (title body : Comp) (count : Int) :
    trusted (card title count body) = (trusted title && trusted body) := by
  have h5 := fun c b => heading_trusted 5 (by omega) c b
  unfold card
  rw [div_trusted]
  simp only [trusted, Bool.and_true]
  rw [show ((5 : Int)) = ((5 : Nat) : Int) from rfl, h5]
  split
  · rfl
  · simp only [trusted, badgePill_trusted, Bool.and_true]

theorem keyedTableRow_trusted (title : Str) (visible : Bool) (v : Comp) (hv : trusted v = true) :
    trusted (keyedTableRow title visible v) = true := by
  unfold keyedTableRow
  cases visible with
  | false => rfl
  | true =>
    have hw : wrapOk (Comp.pre (.tableRow .nil)) (Comp.post (.tableRow .nil)) = true := by decide +kernel
    have hc1 : wrapOk (cellOpen true [] false []) (cellClose true) = true := by decide +kernel
    have hc2 : wrapOk (cellOpen false [] false []) (cellClose false) = true := by decide +kernel
    simp only [if_true, seqs, trusted, Bool.and_true, hv]
    simp only [Comp.pre, Comp.post] at hw ⊢
    simp [hw, hc1, hc2]

/-! ### Which sink each page component feeds (regenerated from the source on every run) -/

/-- the string parameters of html/core that the code writes raw are exactly the raw sinks of the
    model (probed with `<"` through every public constructor) -/
theorem raw_sinks_expected : rawCoreParams = expectedRawCoreParams := by decide

set_option maxRecDepth 1000000 in
/-- every call of a core constructor or raw write helper in html/*.go and q/html_formatter.go
    feeds a known sink, and a raw sink only ever receives literals (constants, literal-only locals
    and helpers, Sprintf of those) — or an expression on the allow-list, with its reason -/
theorem raw_sinks_fed_by_literals : Generated.sinkCalls.all sinkCallOk = true := by decide

/-! ### The escaping code itself, translated from the source (go/ast → `Generated.Escapers`)

  The statements of `(*Text).WriteHTMLTo` and the expressions between a value and the page in
  `(*Tag)`, `(*Anchor)` and `(*TableHead).WriteHTMLTo` are programs of `Gedcom.Rewrite`; running
  them is the model's `renderText` / `encode`, so `escape_safe`, `text_amp`, `encode_safe`,
  `render_wellNested` … are statements about the translated code. -/

open Gedcom.Rewrite in
/-- every translated statement / expression is inside the fragment (nothing became `.bad`) -/
theorem escapers_translated :
    progOk Generated.textProgram = true ∧ progOk Generated.attrProgram = true ∧
    progOk Generated.anchorProgram = true ∧ progOk Generated.headProgram = true := by decide

/-- `html.EscapeString` of the standard library is the per-byte table seen through the components -/
theorem std_escape_is_the_probed_table :
    Generated.stdEscapeTable = Generated.textEscTable ∧ Generated.stdEscapeTable = Generated.headEscTable
    ∧ Generated.stdEscapeTable = Generated.anchorEscTable := by decide

open Gedcom.Rewrite in
/-- running the statements of `(*Text).WriteHTMLTo` is the model's `renderText`, for every value -/
theorem text_is_the_source (s : Str) :
    runProg Generated.stdEscapeTable Generated.textProgram s = some (renderText s) := by
  have hp : Generated.textProgram =
      [.replaceAll Generated.textReplaceBefore.1 Generated.textReplaceBefore.2, .escapeString,
       .replaceAll Generated.textReplaceAfter.1 Generated.textReplaceAfter.2] := rfl
  rw [hp, std_escape_is_the_probed_table.1]
  rfl

open Gedcom.Rewrite in
/-- … `(*Anchor)` and `(*TableHead)` apply `html.EscapeString`, which is `encode .anchor/.head` -/
theorem anchor_is_the_source (n : Str) :
    runProg Generated.stdEscapeTable Generated.anchorProgram n = some (encode .anchor n) := by
  have hp : Generated.anchorProgram = [.escapeString] := rfl
  rw [hp, std_escape_is_the_probed_table.2.2]; rfl

open Gedcom.Rewrite in
theorem head_is_the_source (c : Str) :
    runProg Generated.stdEscapeTable Generated.headProgram c = some (encode .head c) := by
  have hp : Generated.headProgram = [.escapeString] := rfl
  rw [hp, std_escape_is_the_probed_table.2.1]; rfl

open Gedcom.Rewrite in
/-- … and the `strings.NewReplacer` of `(*Tag).WriteHTMLTo` is `encode .attr` -/
theorem attr_is_the_source (v : Str) :
    runProg Generated.stdEscapeTable Generated.attrProgram v = some (encode .attr v) := by
  obtain ⟨pairs, hp, hs, hb⟩ : ∃ pairs, Generated.attrProgram = [.replacer pairs] ∧ singleByte pairs = true
      ∧ ∀ n, n < 256 → escByte (tableOf pairs) (UInt8.ofNat n) = escByte Generated.attrEscTable (UInt8.ofNat n) :=
    ⟨_, rfl, by decide, by decide +kernel⟩
  rw [hp]
  simp only [runProg, runOp]
  rw [replacerGo_single pairs hs]
  congr 1
  apply escWith_congr
  intro b
  have := hb b.toNat (UInt8.toNat_lt b)
  simpa using this

open Gedcom.Rewrite in
/-- hence: whatever the translated `(*Text).WriteHTMLTo` writes contains none of `< > " '` -/
theorem source_text_safe (s o : Str) (h : runProg Generated.stdEscapeTable Generated.textProgram s = some o) :
    ∀ b ∈ o, b ≠ 60 ∧ b ≠ 62 ∧ b ≠ 34 ∧ b ≠ 39 := by
  rw [text_is_the_source] at h
  have : o = renderText s := by simpa using h.symm
  subst this
  exact fun b hb => escape_safe s b hb

/-! ### Non-vacuity -/

/-- a hostile value in every data position of a small page: trusted, hence well nested -/
example :
    let evil : Str := b!"</td><script>alert(1)</script>\"'&"
    let c := mkPage evil (.table [] (seqs [.tableHead [evil], .tableRow (.tableCell false [] true []
                (seqs [.anchor evil, link (.text evil) evil []]))])) []
    trusted c = true ∧ wellNested (render c) = true := by decide +kernel

/-- … while the same value in a raw sink is not trusted and does break the page -/
example : trusted (.raw b!"</td><script>") = false ∧
    wellNested (render (.tableRow (.tableCell false [] false [] (.raw b!"</td><script>")))) = false := by
  decide +kernel

/-- raw-text elements: nothing inside `<title>`, `<textarea>`, `<style>`, `<script>` is a tag -/
example : wellNested b!"<title>a </b> <x</title><textarea><p></textarea><style>a<b{}</style><script>if(a<b){}</script>" = true
    ∧ wellNested b!"<title>never closed" = false := by decide +kernel

end Gedcom.C18
