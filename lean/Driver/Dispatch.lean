import Gedcom.Model.Compare
namespace Driver
open Gedcom

def parseInts (ws : List String) : Option (List Int) := ws.mapM String.toInt?
def parseNats (ws : List String) : Option (List Nat) := ws.mapM String.toNat?

def b2s (b : Bool) : String := if b then "1" else "0"

def respond (line : String) : String :=
  match line.splitOn " " with
  | "cmp" :: rest =>
    -- cmp d m y  d m y  d m y  d m y : receiver start, receiver end, argument start, argument end
    match parseNats rest with
    | some [d1, m1, y1, d2, m2, y2, d3, m3, y3, d4, m4, y4] =>
      let r := compareDates ⟨d1, m1, y1⟩ ⟨d2, m2, y2⟩ ⟨d3, m3, y3⟩ ⟨d4, m4, y4⟩
      s!"{r.name} {b2s (Generated.relIsEqual r)}{b2s (Generated.relIsPartiallyEqual r)}{b2s (Generated.relIsNotEqual r)}"
    | _ => "bad-op"
  | "cmpi" :: rest =>
    match parseInts rest with
    | some [a, b, c, d] => (compare a b c d).name
    | _ => "bad-op"
  | "date" :: rest =>
    -- date d m y : start/end day number (unix days), period length, Years as y num den
    match parseNats rest with
    | some [d, m, y] =>
      let dt : Date := ⟨d, m, y⟩
      s!"{dt.firstDay - 719163} {dt.lastDay - 719163} {dt.periodDays} {dt.year} {dt.yearsNum} {dt.yearsDen}"
    | _ => "bad-op"
  | "before" :: rest =>
    -- before d m y d m y [same] : IsBefore, IsAfter, exact tie
    match parseNats (rest.take 6) with
    | some [d1, m1, y1, d2, m2, y2] =>
      let a : Date := ⟨d1, m1, y1⟩
      let b : Date := ⟨d2, m2, y2⟩
      s!"{b2s (a.isBefore b)}{b2s (a.isAfter b)}{b2s (!(a.isBefore b) && !(a.isAfter b))}"
    | _ => "bad-op"
  | "minmax" :: rest =>
    match parseNats rest with
    | some ns =>
      let rec triples : List Nat → List Date
        | d :: m :: y :: more => ⟨d, m, y⟩ :: triples more
        | _ => []
      let ds := triples ns
      let show_ (o : Option Nat) : String := match o with | some i => toString i | none => "-1"
      s!"{show_ (minimumIdx ds)} {show_ (maximumIdx ds)}"
    | _ => "bad-op"
  | _ => "bad-op"

end Driver
