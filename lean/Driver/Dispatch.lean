/-
  Request dispatch.  Each topic has its own handler file under Driver/Handlers; a handler
  returns `none` for a command it does not own.  To add a topic: one import, one list entry.
-/
import Driver.Util
import Driver.Handlers.Dates
import Driver.Handlers.Similarity
import Driver.Handlers.Match
import Driver.Handlers.DateParse
import Driver.Handlers.Decoder
import Driver.Handlers.Diff
import Driver.Handlers.Resolve
import Driver.Handlers.Warnings
import Driver.Handlers.Equal
import Driver.Handlers.Living
import Driver.Handlers.Pages
import Driver.Handlers.Html
import Driver.Handlers.Query
import Driver.Handlers.MergeGraph
import Driver.Handlers.MergeComposed
import Driver.Handlers.Cache
import Driver.Handlers.Merge
import Driver.Handlers.Publish
import Driver.Handlers.Totality
namespace Driver

def handlers : List (String → List String → Option String) :=
  [handleDates, handleSimilarity, handleMatch, handleDateParse, handleDecoder, handleDiff, handleResolve, handleWarnings, handleEqual, handleLiving, handlePages, handleHtml, handleQuery, handleMergeGraph, handleMergeDocs, handleMergeComposed, handleCache, handleMerge, handlePublish, handleTotality]

def respond (line : String) : String :=
  match line.splitOn " " with
  | [] => "bad-op"
  | cmd :: rest =>
    match handlers.findSome? (fun h => h cmd rest) with
    | some r => r
    | none => "bad-op"

end Driver
