/- Shared helpers of the line protocol: numbers, bits, hex-encoded byte strings. -/
import Gedcom.Model.Types
namespace Driver
open Gedcom

def parseInts (ws : List String) : Option (List Int) := ws.mapM String.toInt?
def parseNats (ws : List String) : Option (List Nat) := ws.mapM String.toNat?

def b2s (b : Bool) : String := if b then "1" else "0"

def hexDigit (n : Nat) : Char := if n < 10 then Char.ofNat (48 + n) else Char.ofNat (87 + n)

/-- lower-case byte hex; the empty string is written `-` -/
def toHex (s : Str) : String :=
  if s.isEmpty then "-" else
  String.ofList (s.flatMap fun b => [hexDigit (b.toNat / 16), hexDigit (b.toNat % 16)])

def hexVal (c : Char) : Option Nat :=
  if '0' ≤ c ∧ c ≤ '9' then some (c.toNat - 48)
  else if 'a' ≤ c ∧ c ≤ 'f' then some (c.toNat - 87)
  else if 'A' ≤ c ∧ c ≤ 'F' then some (c.toNat - 55)
  else none

def fromHex (s : String) : Option Str :=
  if s == "-" then some [] else
  let rec go : List Char → Option Str
    | [] => some []
    | a :: b :: rest => do
      let x ← hexVal a
      let y ← hexVal b
      let r ← go rest
      pure (UInt8.ofNat (x * 16 + y) :: r)
    | _ => none
  go s.toList

/-- ASCII string literal to bytes (for tables in the model) -/
def ascii (s : String) : Str := s.toList.map (fun c => UInt8.ofNat c.toNat)

end Driver
