/- Forests on the wire: "<n> (<tag> <value> <ptr> <nkids> kids…)*", byte strings hex, preorder. -/
import Gedcom.Model.Node
import Driver.Util
namespace Driver
open Gedcom

partial def parseNode (toks : List String) : Option (Node × List String) :=
  match toks with
  | t :: v :: p :: k :: rest => do
    let t ← fromHex t
    let v ← fromHex v
    let p ← fromHex p
    let k ← k.toNat?
    let (ks, rest) ← parseNodes k rest
    pure (Node.mk t v p ks, rest)
  | _ => none
where
  parseNodes (k : Nat) (toks : List String) : Option (List Node × List String) :=
    match k with
    | 0 => some ([], toks)
    | k+1 => do
      let (n, rest) ← parseNode toks
      let (ns, rest) ← parseNodes k rest
      pure (n :: ns, rest)

/-- parses a forest from the front of the token list, returns the remaining tokens -/
def parseForest (toks : List String) : Option (Forest × List String) :=
  match toks with
  | n :: rest => do
    let n ← n.toNat?
    parseNode.parseNodes n rest
  | _ => none

partial def showNode : Node → String
  | .mk t v p ks =>
    ks.foldl (fun acc k => acc ++ " " ++ showNode k) s!"{toHex t} {toHex v} {toHex p} {ks.length}"

def showForest (f : Forest) : String :=
  f.foldl (fun acc k => acc ++ " " ++ showNode k) (toString f.length)

end Driver
