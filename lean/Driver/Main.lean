/-
  Line-protocol driver: one request per line on stdin, one canonical response line on
  stdout.  Imports the executable model only (core Lean; no Mathlib) so that it links.
-/
import Driver.Dispatch

partial def loop (hin hout : IO.FS.Stream) : IO Unit := do
  let line ← hin.getLine
  if line.isEmpty then return ()
  let l := if line.endsWith "\n" then (line.dropEnd 1).toString else line
  hout.putStrLn (Driver.respond l)
  loop hin hout

def main : IO Unit := do
  let hin ← IO.getStdin
  let hout ← IO.getStdout
  loop hin hout
  hout.flush
