import Gedcom.Model.MergeGraph
import Gedcom.Model.MergeDocs
import Gedcom.Model.Decoder
import Gedcom.Lemmas.MergePath
import Driver.Util
import Driver.Tree
namespace Driver
open Gedcom.MergeG

/-
  mergeg <nm> m*  G G          m := B i j | L i | R j
  G := <ni> rcd* <nf> rcd*     rcd := <ptr> <nrefs> (role target)*
  answer: the sorted rows  I<ptr> | F<ptr> | r<owner>.<role>.<target>.<#INDI with that pointer>.<#FAM …>.<away>
  (away: for the HUSB / WIFE / CHIL lines of the merged families, `mergedAway` of the target — the
  characterisation of `references_resolve_iff`; 0 on the lines of individuals), then
  `dangling=<length of danglingRefs>`
-/

def mgTakeN {α} (item : List String → Option (α × List String)) : Nat → List String → Option (List α × List String)
  | 0, toks => some ([], toks)
  | n+1, toks => do
    let (x, rest) ← item toks
    let (xs, rest) ← mgTakeN item n rest
    pure (x :: xs, rest)

def mgCount {α} (item : List String → Option (α × List String)) : List String → Option (List α × List String)
  | n :: rest => do
    let n ← n.toNat?
    mgTakeN item n rest
  | [] => none

def mgM : List String → Option (M × List String)
  | "B" :: i :: j :: rest => do pure (.both (← i.toNat?) (← j.toNat?), rest)
  | "L" :: i :: rest => do pure (.left (← i.toNat?), rest)
  | "R" :: j :: rest => do pure (.right (← j.toNat?), rest)
  | _ => none

def mgRef : List String → Option (Ref × List String)
  | a :: b :: rest => do pure (((← a.toNat?), (← b.toNat?)), rest)
  | _ => none

def mgRcd : List String → Option (Rcd × List String)
  | p :: rest => do
    let p ← p.toNat?
    let (refs, rest) ← mgCount mgRef rest
    pure (⟨p, refs⟩, rest)
  | [] => none

def mgG (toks : List String) : Option (G × List String) := do
  let (is, rest) ← mgCount mgRcd toks
  let (fs, rest) ← mgCount mgRcd rest
  pure (⟨is, fs⟩, rest)

def mgRows (m : List M) (l r : G) (g : G) : List String :=
  let cnt (l : List Rcd) (p : Nat) : Nat := (l.filter (fun x => x.ptr == p)).length
  let refRows (fam : Bool) (x : Rcd) : List String :=
    x.refs.map fun rf => s!"r{x.ptr}.{rf.1}.{rf.2}.{cnt g.indis rf.2}.{cnt g.fams rf.2}.{b2s (fam && mergedAway m l.indis r.indis rf.2)}"
  g.indis.flatMap (fun x => s!"I{x.ptr}" :: refRows false x) ++ g.fams.flatMap (fun x => s!"F{x.ptr}" :: refRows true x)

def handleMergeGraph (cmd : String) (rest : List String) : Option String :=
  match cmd with
  | "mergeg" =>
    match (do
      let (m, rest) ← mgCount mgM rest
      let (l, rest) ← mgG rest
      let (r, rest) ← mgG rest
      if rest.isEmpty then pure (m, l, r) else none : Option (List M × G × G)) with
    | some (m, l, r) =>
      let rows := (mgRows m l r (mergeG m l r)).mergeSort (fun a b => !decide (b < a))
      some ((if rows.isEmpty then "-" else " ".intercalate rows) ++ s!" dangling={(danglingRefs m l r).length}")
    | none => some "bad-op"
  | _ => none

/-
  mergedocs <nm> m* <forest left> <forest right>     m := B i j | L i | R j
  (i, j: positions among the INDI records of each document, in the order the comparisons arrived)
  answer: `ok legal=<b> inputs=<b> <forest>` (inputs: `recordsBelowFam` of both inputs, the guard of `output_redecodes`) — the records of the merged document in order and whether they
  pass C01's legality check (`legalDocB`, the guard of `output_redecodes_partial`) — or
  `error` / `panic` / `oof`.
-/
def mdRes (L R : List Gedcom.INode) : M → Gedcom.Match.Res
  | .both i j => ((L[i]?).map (·.id), (R[j]?).map (·.id))
  | .left i => ((L[i]?).map (·.id), none)
  | .right j => (none, (R[j]?).map (·.id))

def handleMergeDocs (cmd : String) (rest : List String) : Option String :=
  match cmd with
  | "mergedocs" =>
    match (do
      let (m, rest) ← mgCount mgM rest
      let (l, rest) ← parseForest rest
      let (r, rest) ← parseForest rest
      if rest.isEmpty then pure (m, l, r) else none : Option (List M × Gedcom.Forest × Gedcom.Forest)) with
    | some (m, l, r) =>
      let a := Gedcom.labelList 0 l
      let b := Gedcom.labelList a.2 r
      let res := m.map (mdRes (Gedcom.MergeD.indisOf a.1) (Gedcom.MergeD.indisOf b.1))
      match Gedcom.MergeD.mergeDocs res a.1 b.1 { next := b.2, writes := [], oof := false } with
      | .error => some "error"
      | .panic => some "panic"
      | .outOfFuel => some "oof"
      | o@(.ok _ _ _) =>
        match o.nodes with
        | some ns =>
          let below (l : List Gedcom.INode) : Bool := l.all fun n => Gedcom.rolesBelowFam false n.erase
          some s!"ok legal={b2s (Gedcom.Dec.legalDocB ⟨false, ns⟩)} inputs={b2s (below a.1 && below b.1)} {showForest ns}"
        | none => some "error"
    | none => some "bad-op"
  | _ => none

end Driver
