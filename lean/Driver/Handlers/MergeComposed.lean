import Gedcom.Model.MergeDocs
import Gedcom.Lemmas.MatchJobs
import Driver.Handlers.Match
import Driver.Util
import Driver.Tree
namespace Driver
open Driver.MatH Gedcom Gedcom.Match

/-
  mergecomposed <L> <R> <prefer> <minW> <T> <F> <hint> <forest left> <forest right>
  `<L> … <F>` as in the `match` request (C11), the persons' ids being positions among the INDI
  records of their document; `hint` = the pairs the implementation's `Compare` returned (`showRes`
  format with `,` for the blanks, `_` = none) — used only to pick, among the resolutions of
  ambiguous unique-identifier choices, the one whose merged document is printed.
  The driver gives the persons the node ids of the labelled forests, runs
  `MergeD.mergeComposed` (C11 `winners` on the sequential arrival order → C09 merges) for every
  resolution and answers
    <pairs of resolution 1> | <pairs …> ties=<b> ok=<b> amb=<b> guards=<b> acct=<b> doc=<ok|error|panic|oof>
      I: <the merged individuals, one `showForest [n]` each, sorted> O: <showForest of the other records, in order>
  guards = IdsOK ∧ PtrsOK ∧ JobsOK (the hypotheses of `accounting_end_to_end`), acct = `accountedB`
  of the result (its conclusion).
-/

def mcReid (ns : List INode) (ps : List Person) : Option (List Person) :=
  ps.mapM fun p => (ns[p.id]?).map fun n => { p with id := n.id }

def mcIdx (ns : List INode) (x : Nat) : Nat := (ns.map (·.id)).idxOf x

def mcShowRes (L R : List INode) (rs : List Res) : String :=
  showRes (rs.map fun r => (r.1.map (mcIdx L), r.2.map (mcIdx R)))

def handleMergeComposed (cmd : String) (rest : List String) : Option String :=
  match cmd with
  | "mergecomposed" =>
    match rest with
    | l :: r :: prefer :: minW :: t :: f :: hint :: rest =>
      match parsePersons l, parsePersons r, mParseRat prefer, mParseRat minW, parseScores t, parseScores f,
        (do let (lf, rest) ← parseForest rest
            let (rf, rest) ← parseForest rest
            if rest.isEmpty then pure (lf, rf) else none : Option (Forest × Forest)) with
      | some L0, some R0, some prefer, some minW, some T, some F, some (lf, rf) =>
        let a := labelList 0 lf
        let b := labelList a.2 rf
        let Li := MergeD.indisOf a.1
        let Ri := MergeD.indisOf b.1
        match mcReid Li L0, mcReid Ri R0 with
        | some L, some R =>
          let sT := fun x y => lookupScore T (mcIdx Li x) (mcIdx Ri y)
          let sF := fun x y => lookupScore F (mcIdx Li x) (mcIdx Ri y)
          let hint := hint.replace "," " "
          let per := (resolutions L R).map fun asg =>
            let ch := choiceOf R asg
            let js := jobsFrom ch ⟨[], []⟩ L R sT sF prefer
            (mcShowRes Li Ri (winners L R minW js), tiesAbove minW js, decide (JobsOK L R js), js)
          let chosen := (per.find? fun x => x.1 == hint).getD (per.headD ("", false, true, []))
          let guards := decide (IdsOK L R) && decide (PtrsOK L R) && per.all (fun x => x.2.2.1) &&
            L.length == Li.length && R.length == Ri.length
          let amb := L.any fun a => (uniqueCandidates R a).length > 1
          let flags := s!"ties={b2s (per.any (fun x => x.2.1))} ok={b2s (decide (IdsOK L R) && per.all (fun x => x.2.2.1))} amb={b2s amb} guards={b2s guards}"
          let pairs := " | ".intercalate (per.map (·.1))
          match MergeD.mergeComposed L R minW chosen.2.2.2 a.1 b.1 { next := b.2, writes := [], oof := false } with
          | .error => some s!"{pairs} {flags} acct=0 doc=error"
          | .panic => some s!"{pairs} {flags} acct=0 doc=panic"
          | .outOfFuel => some s!"{pairs} {flags} acct=0 doc=oof"
          | .ok indis others _ =>
            let recs := (eraseList (indis.map (·.2))).map fun n => showForest [n]
            let recs := recs.mergeSort (fun x y => !decide (y < x))
            some s!"{pairs} {flags} acct={b2s (MergeD.accountedB Li Ri indis)} doc=ok I: {" ; ".intercalate recs} O: {showForest (eraseList others)}"
        | _, _ => some "bad-op"
      | _, _, _, _, _, _, _ => some "bad-op"
    | _ => some "bad-op"
  | _ => none

end Driver
