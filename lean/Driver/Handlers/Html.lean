import Gedcom.Model.Html
import Gedcom.Model.HtmlSinks
import Gedcom.Model.HtmlProg
import Gedcom.Generated.Pages
import Driver.Util
namespace Driver
open Gedcom Gedcom.Html

/-- component trees on the wire: prefix notation, one node kind per Go component of html/core;
    byte strings hex (`-` = empty), integers decimal, booleans 0/1, lists preceded by their length -/
partial def parseHtmlComp (toks : List String) : Option (Comp × List String) :=
  match toks with
  | [] => none
  | kind :: r =>
    let str (r : List String) : Option (Str × List String) :=
      match r with | x :: r => (fromHex x).map (·, r) | [] => none
    let int (r : List String) : Option (Int × List String) :=
      match r with | x :: r => x.toInt?.map (·, r) | [] => none
    let bool (r : List String) : Option (Bool × List String) :=
      match r with | "1" :: r => some (true, r) | "0" :: r => some (false, r) | _ => none
    let rec many (n : Nat) (r : List String) : Option (List Comp × List String) :=
      match n with
      | 0 => some ([], r)
      | n+1 => do
        let (c, r) ← parseHtmlComp r
        let (cs, r) ← many n r
        pure (c :: cs, r)
    let list (r : List String) : Option (List Comp × List String) := do
      let (n, r) ← int r
      many n.toNat r
    match kind with
    | "text" => do let (s, r) ← str r; pure (.text s, r)
    | "html" => do let (s, r) ← str r; pure (.raw s, r)
    | "anchor" => do let (s, r) ← str r; pure (.anchor s, r)
    | "empty" => some (empty, r)
    | "br" => some (lineBreak, r)
    | "hr" => some (horizontalRule, r)
    | "hrrow" => some (horizontalRuleRow, r)
    | "space" => some (space, r)
    | "footer" => some (footerRow, r)
    | "number" => do let (n, r) ← int r; pure (.number n, r)
    | "countbadge" => do let (n, r) ← int r; pure (countBadge n, r)
    | "ga" => do let (s, r) ← str r; pure (.ga s, r)
    | "comps" => do let (cs, r) ← list r; pure (seqs cs, r)
    | "lines" => do let (cs, r) ← list r; pure (seqs [lines cs], r)
    | "tr" => do let (cs, r) ← list r; pure (.tableRow (seqs cs), r)
    | "row" => do let (cs, r) ← list r; pure (.row (seqs cs), r)
    | "navpills" => do let (cs, r) ← list r; pure (navPills cs, r)
    | "navpillsrow" => do let (cs, r) ← list r; pure (navPillsRow cs, r)
    | "navtabs" => do let (cs, r) ← list r; pure (navTabs cs, r)
    | "table" => do let (c, r) ← str r; let (cs, r) ← list r; pure (.table c (seqs [seqs cs]), r)
    | "thead" => do
      let (n, r) ← int r
      let cols := (r.take n.toNat).mapM fromHex
      match cols with
      | some cols => if cols.length == n.toNat then pure (.tableHead cols, r.drop n.toNat) else none
      | none => none
    | "cell" => do
      let (h, r) ← bool r; let (w, r) ← bool r; let (c, r) ← str r; let (s, r) ← str r
      let (b, r) ← parseHtmlComp r
      pure (.tableCell h c w s b, r)
    | "tag" => do
      let (n, r) ← str r
      let (k, r) ← int r
      let kvs := (r.take (2 * k.toNat)).mapM fromHex
      match kvs with
      | some kvs =>
        if kvs.length != 2 * k.toNat then none else
        let rec pairs : List Str → List (Str × Str)
          | a :: b :: t => (a, b) :: pairs t
          | _ => []
        let (b, r) ← parseHtmlComp (r.drop (2 * k.toNat))
        pure (mkTag n (pairs kvs) (seqs [b]), r)
      | none => none
    | "div" => do let (c, r) ← str r; let (b, r) ← parseHtmlComp r; pure (div c (seqs [b]), r)
    | "span" => do let (c, r) ← str r; let (b, r) ← parseHtmlComp r; pure (span c (seqs [b]), r)
    | "heading" => do
      let (n, r) ← int r; let (c, r) ← str r; let (b, r) ← parseHtmlComp r
      pure (heading n c (seqs [b]), r)
    | "column" => do let (n, r) ← int r; let (b, r) ← parseHtmlComp r; pure (column n (seqs [b]), r)
    | "badgepill" => do
      let (c, r) ← str r; let (k, r) ← str r; let (b, r) ← parseHtmlComp r
      pure (badgePill c k (seqs [b]), r)
    | "bigtitle" => do let (n, r) ← int r; let (b, r) ← parseHtmlComp r; pure (bigTitle n b, r)
    | "card" => do
      let (n, r) ← int r; let (t, r) ← parseHtmlComp r; let (b, r) ← parseHtmlComp r
      pure (card t n b, r)
    | "keyed" => do
      let (t, r) ← str r; let (v, r) ← bool r; let (b, r) ← parseHtmlComp r
      pure (keyedTableRow t v b, r)
    | "link" => do
      let (d, r) ← str r; let (s, r) ← str r; let (b, r) ← parseHtmlComp r
      pure (link (seqs [b]) d s, r)
    | "navitem" => do
      let (a, r) ← bool r; let (h, r) ← str r; let (b, r) ← parseHtmlComp r
      pure (navItem (seqs [b]) a h, r)
    | "navlink" => do
      let (t, r) ← str r; let (l, r) ← str r; let (s, r) ← bool r
      pure (navLink t l s, r)
    | "octicon" => do let (n, r) ← str r; let (s, r) ← str r; pure (octicon n s, r)
    | "page" => do
      let (t, r) ← str r; let (g, r) ← str r; let (b, r) ← parseHtmlComp r
      pure (mkPage t b g, r)
    | _ => none


/-! ### component programs (`Generated.pagePrograms`) on the wire

  `<Name> S n hex… I n int… B n 0/1… G hex R n (id hex)… K n kid… L n (m kid…)…` where a kid is
  `P <invocation>` (a nested program) or a component tree in the notation above. -/

def repeatP {α : Type} (f : List String → Option (α × List String)) : Nat → List String → Option (List α × List String)
  | 0, r => some ([], r)
  | n+1, r => do
    let (a, r) ← f r
    let (as, r) ← repeatP f n r
    pure (a :: as, r)

def countedP {α : Type} (tag : String) (f : List String → Option (α × List String)) :
    List String → Option (List α × List String)
  | t :: n :: r => if t == tag then (n.toNat?).bind fun n => repeatP f n r else none
  | _ => none

mutual
/-- an invocation: the program, the assignment, and the same assignment with every string of every
    level blanked (`blankEnv`; opaque children replaced by their `shape`) -/
partial def parseProgInv (toks : List String) : Option ((Prog × Env × Env) × List String) :=
  match toks with
  | name :: r => do
    let p ← (Generated.pagePrograms.lookup name)
    let hexP : List String → Option (Str × List String) := fun r =>
      match r with | x :: r => (fromHex x).map (·, r) | [] => none
    let (strs, r) ← countedP "S" hexP r
    let (ints, r) ← countedP "I" (fun r => match r with | x :: r => x.toInt?.map (·, r) | [] => none) r
    let (bools, r) ← countedP "B" (fun r => match r with | "1" :: r => some (true, r) | "0" :: r => some (false, r) | _ => none) r
    let (ga, r) ← (match r with | "G" :: x :: r => (fromHex x).map (·, r) | _ => none)
    let (raws, r) ← countedP "R" (fun r => match r with
      | i :: x :: r => (i.toNat?).bind fun i => (fromHex x).map fun v => ((i, v), r)
      | _ => none) r
    let (kids, r) ← countedP "K" parseProgKid r
    let (lists, r) ← countedP "L" (fun r => match r with
      | m :: r => (m.toNat?).bind fun m => repeatP parseProgKid m r
      | [] => none) r
    let ρ : Env := { strs := strs, ints := ints, bools := bools, kids := kids.map (·.1),
                     lists := lists.map (·.map (·.1)), raws := raws, ga := ga }
    let ρb : Env := { blankEnv ρ with kids := kids.map (·.2), lists := lists.map (·.map (·.2)) }
    pure ((p, ρ, ρb), r)
  | [] => none
partial def parseProgKid (toks : List String) : Option ((Comp × Comp) × List String) :=
  match toks with
  | "P" :: r => do
    let ((p, ρ, ρb), r) ← parseProgInv r
    pure ((eval ρ p, eval ρb p), r)
  | _ => (parseHtmlComp toks).map fun (c, r) => ((c, shape c), r)
end

def showLexState : LState → String
  | .data => "data" | .lt => "lt" | .bang _ => "comment" | .tagName _ _ => "tag-name"
  | .inTag _ _ => "in-tag" | .attrName _ _ => "attr-name" | .afterEq _ => "after-eq"
  | .quoted _ _ => "quoted" | .rawText _ _ => "raw-text" | .dead => "bad-token"

/-- first token (index) at which the nesting check fails -/
def firstNestingFailure (ts : List Tok) : String :=
  let rec go (i : Nat) (σ : List Str) : List Tok → String
    | [] => s!"unclosed={σ.length}"
    | t :: rest =>
      match chk σ [t] with
      | some σ' => go (i + 1) σ' rest
      | none =>
        let d := match t with
          | .close n => "close:" ++ toHex n ++ "/top:" ++ (match σ with | m :: _ => toHex m | [] => "-")
          | .bad => "bad"
          | _ => "?"
        s!"token={i} {d}"
  go 0 [] ts

def htmlHashBytes (h : Nat) (s : Str) : Nat :=
  s.foldl (fun h b => (h * 1099511628211 + b.toNat + 1) % 2305843009213693951) h

def htmlHashStrs (h : Nat) (l : List Str) : Nat := l.foldl (fun h s => htmlHashBytes (h * 31 + 7) s) h

/-- digest of a token stream: tag names, attribute names, order — nothing else -/
def htmlHashToks (ts : List Tok) : Nat :=
  ts.foldl (fun h t =>
    match t with
    | .open n a => htmlHashStrs (htmlHashBytes (h * 131 + 1) n) a
    | .close n => htmlHashBytes (h * 131 + 2) n
    | .selfClose n a => htmlHashStrs (htmlHashBytes (h * 131 + 3) n) a
    | .comment => (h * 131 + 4) % 2305843009213693951
    | .bad => (h * 131 + 5) % 2305843009213693951) 14695981039346656037

/-- requests about html/core rendering and page structure (C18) -/
def handleHtml (cmd : String) (rest : List String) : Option String :=
  match cmd with
  | "render" =>
    match parseHtmlComp rest with
    | some (c, []) => some (toHex (render c))
    | _ => some "bad-op"
  | "trusted" =>
    match parseHtmlComp rest with
    | some (c, []) => some (b2s (trusted c) ++ b2s (wellNested (render c)))
    | _ => some "bad-op"
  | "prog" =>
    -- a regenerated component program under the harness's hole values: the bytes it renders, and
    -- progOk / envOk / trusted / wellNested / "same skeleton as with every string blanked"
    match parseProgInv rest with
    | some ((p, ρ, ρb), []) =>
      let c := eval ρ p
      let out := render c
      -- an instance of assembly_structure_preserved: every string of every level blanked
      let same := skeleton out == skeleton (render (eval ρb p))
      some (toHex out ++ " ok=" ++ b2s (progOk p) ++ b2s (envOk ρ) ++ b2s (trusted c) ++ b2s (wellNested out) ++ b2s same)
    | _ => some "bad-op"
  | "progs" =>
    some s!"translated={Generated.pagePrograms.length} ok={(Generated.pagePrograms.filter fun np => progOk np.2).length} untranslated={Generated.pageUntranslated.length} rejected={",".intercalate ((Generated.pagePrograms.filter fun np => !progOk np.2).map (·.1))}"
  | "text" =>
    match rest with
    | [h] => match fromHex h with | some s => some (toHex (renderText s)) | none => some "bad-op"
    | _ => some "bad-op"
  | "esc" =>
    match rest with
    | [h] => match fromHex h with | some s => some (toHex (escapeString s)) | none => some "bad-op"
    | _ => some "bad-op"
  | "skeleton" =>
    match rest with
    | [h] =>
      match fromHex h with
      | some s => let r := skeleton s; some s!"state={showLexState r.1} tokens={r.2.length} digest={htmlHashToks r.2}"
      | none => some "bad-op"
    | _ => some "bad-op"
  | "sinkcheck" =>
    -- ids of the regenerated sink calls that the model does not accept, and the raw core parameters
    let bad := (Generated.sinkCalls.filter (fun c => !sinkCallOk c)).map (fun c => toString c.1)
    let rawOk := rawCoreParams == expectedRawCoreParams
    some s!"raw-params={b2s rawOk} offending={",".intercalate bad}"
  | "structure" =>
    -- digest of the token stream and the distinct element.attribute pairs of the page
    match rest with
    | [h] =>
      match fromHex h with
      | some s =>
        let r := skeleton s
        let pairs := r.2.foldl (fun acc t =>
          match t with
          | .open n a | .selfClose n a =>
            a.foldl (fun acc k =>
              let p := String.fromUTF8! (ByteArray.mk (n ++ [46] ++ k).toArray)
              if acc.contains p then acc else p :: acc) acc
          | _ => acc) ([] : List String)
        some s!"state={showLexState r.1} tokens={r.2.length} digest={htmlHashToks r.2} attrs={",".intercalate pairs.reverse}"
      | none => some "bad-op"
    | _ => some "bad-op"
  | "wellnested" =>
    match rest with
    | [h] =>
      match fromHex h with
      | some s =>
        if wellNested s then some "1"
        else
          let r := lexHtml s
          some s!"0 state={showLexState r.1} tokens={r.2.length} {firstNestingFailure r.2}"
      | none => some "bad-op"
    | _ => some "bad-op"
  | _ => none

end Driver
