/-
  C13 requests: a history of public-API calls on one document, answered by the cache state
  machine `Gedcom.Cache.step` under the flags regenerated from the Go source.

    c13 <forest> ops <op> ; <op> ; …        (flags of the current tree)
    c13f <21 bits> <forest> ops …           (explicit flags, for counterexample replay)

  Nodes are addressed by position (root index, child indices) in the *current* document, so the
  two sides never exchange ids.  Observations name nodes by position too: `0.2.1`, `n` = nil,
  `x` = a node that is no longer in the document.
-/
import Gedcom.Model.Cache
import Driver.Tree
namespace Driver
open Gedcom Gedcom.Cache

def initOfForest (f : Forest) : St := ofForest f

partial def pathsGo (a : Abs) (arr : Array (Option String)) (n : Id) (path : String) (fuel : Nat) :
    Array (Option String) :=
  match fuel with
  | 0 => arr
  | fuel + 1 =>
    let arr := match arr[n]? with
      | some none => arr.set! n (some path)
      | _ => arr
    (a.kids n).zipIdx.foldl (fun arr (c, i) => pathsGo a arr c (path ++ "." ++ toString i) fuel) arr

/-- position of every attached node (first occurrence in preorder) -/
def pathsOf (a : Abs) : Array (Option String) :=
  (a.roots.zipIdx.foldl (fun arr (r, i) => pathsGo a arr r (toString i) 600)
    (Array.replicate a.heap.length none))

def fnv (h : UInt64) (bs : List UInt8) : UInt64 :=
  bs.foldl (fun h b => (h ^^^ b.toUInt64) * 1099511628211) h

def hex64 (x : UInt64) : String :=
  String.ofList ((List.range 16).map fun i => hexDigit ((x.toNat / 16 ^ (15 - i)) % 16))

def showId (paths : Array (Option String)) : Option Id → String
  | none => "n"
  | some i => match paths[i]? with
    | some (some p) => p
    | _ => "x"

def showObsWith (paths : Array (Option String)) : Obs → String
  | .none => "."
  | .bad => "bad"
  | .ids l => "[" ++ ",".intercalate (l.map (showId paths)) ++ "]"
  | .text b => "s=" ++ hex64 (fnv 14695981039346656037 b)

def showObs (a : Abs) (o : Obs) : String := showObsWith (pathsOf a) o

def resolve (a : Abs) : List Nat → Option Id
  | [] => none
  | r :: rest => do
    let root ← a.roots[r]?
    rest.foldlM (fun n i => (a.kids n)[i]?) root

/-- digest of the whole tree: per node `depth tag value ptr\n`, preorder -/
partial def digest (a : Abs) : UInt64 :=
  let rec go (h : UInt64) (n : Id) (d : Nat) (fuel : Nat) : UInt64 :=
    match fuel with
    | 0 => h
    | fuel + 1 =>
      let h := fnv h (ascii (toString d))
      let h := fnv h [32]
      let h := fnv h (a.tag n)
      let h := fnv h [32]
      let h := fnv h (a.value n)
      let h := fnv h [32]
      let h := fnv h (a.ptr n)
      let h := fnv h [10]
      (a.kids n).foldl (fun h c => go h c (d + 1) fuel) h
  a.roots.foldl (fun h r => go h r 0 600) 14695981039346656037

def probeTags (a : Abs) (r : Id) : List Str :=
  if a.tag r == tINDI then [tNAME, tBIRT, tDEAT, tFAMS, tFAMC]
  else if a.tag r == tFAM then [tHUSB, tWIFE, tCHIL]
  else []

/-- the views a `dump` reads, in this order -/
def dumpViews (a : Abs) : List View :=
  [View.individuals, View.families] ++
  a.roots.flatMap fun r =>
    (if (a.ptr r).isEmpty then [] else [View.byPointer (a.ptr r)]) ++
    (probeTags a r).map (View.nodesWithTag r) ++
    ((a.kids r).filter fun c => a.tag c == tBIRT || a.tag c == tDEAT || a.tag c == tNAME).map
      (fun c => View.nodesWithTag c tDATE) ++
    (if a.tag r == tINDI && a.roots.contains r then
      [View.indFamilies r, View.spouses r, View.parents r, View.children r,
       View.names r, View.eventsOf r tBIRT, View.eventsOf r tBAPM, View.eventsOf r tDEAT,
       View.eventsOf r tBURI, View.allEvents r] else []) ++
    (if a.tag r == tFAM then [View.husband r, View.wife r, View.famChildren r] else [])

def runDump (fl : Flags) (s : St) : St × String :=
  let views := dumpViews (abs s)
  let paths := pathsOf (abs s)   -- reads do not move nodes
  let (s, outs) := views.foldl (fun (acc : St × List String) v =>
    let r := step fl acc.1 (.read v)
    (r.1, showObsWith paths r.2 :: acc.2)) (s, [])
  (s, "t=" ++ hex64 (digest (abs s)) ++ "/" ++ "/".intercalate outs.reverse)

/-- an id that no node has: "some node that is not in the document" -/
def noNode (s : St) : Id := s.heap.length

/-- a root index or `-1` (= nil); an index that does not resolve denotes no node (the op is then
    rejected as `bad` by `step`, as on the Go side) -/
def optIdx (s : St) (tok : String) : Option (Option Id) :=
  if tok == "-1" then some none else do
    let i ← tok.toNat?
    pure (some (((abs s).roots[i]?).getD (noNode s)))

/-- parse "k i0 … i(k-1)" from the front -/
def takePath (toks : List String) : Option (List Nat × List String) := do
  let k ← toks.head? >>= String.toNat?
  let ps ← parseNats ((toks.drop 1).take k)
  if ps.length == k then pure (ps, toks.drop (1 + k)) else none

def runOp (fl : Flags) (s : St) (toks : List String) : St × String :=
  let a := abs s
  let stepShow (op : Op) : St × String := let r := step fl s op; (r.1, showObs (abs r.1) r.2)
  let atomicShow (ops : List Op) : St × String := let r := runAtomic fl s ops; (r.1, showObs (abs r.1) r.2)
  let root (tok : String) : Id := match tok.toNat? with
    | some i => (a.roots[i]?).getD (noNode s)
    | none => noNode s
  match toks with
  | ["dump"] => runDump fl s
  | ["rebuild"] =>
    -- `views_fresh_decode`, evaluated (a run-time cross-check of the theorem): every view of the live state, rendered by
    -- position, against the same views of the state rebuilt from the forest the text encodes
    let live := (runDump fl s).2
    let fresh := (runDump fl (ofForest (toForest (abs s)))).2
    (s, if live == fresh then "r=1" else "r=0")
  | ["warn"] => stepShow .warnings
  | ["str"] => stepShow .string
  | ["foreign"] => stepShow .foreign
  | ["inert"] => stepShow .inert
  | ["inds"] => stepShow (.read .individuals)
  | ["fams"] => stepShow (.read .families)
  | ["bp", p] => match fromHex p with
    | some p => stepShow (.read (.byPointer p))
    | none => (s, "bad-op")
  | ["if", i] => stepShow (.read (.indFamilies (root i)))
  | ["sp", i] => stepShow (.read (.spouses (root i)))
  | ["pa", i] => stepShow (.read (.parents (root i)))
  | ["ch", i] => stepShow (.read (.children (root i)))
  | ["hu", f] => stepShow (.read (.husband (root f)))
  | ["wi", f] => stepShow (.read (.wife (root f)))
  | ["fc", f] => stepShow (.read (.famChildren (root f)))
  | ["nms", i] => stepShow (.read (.names (root i)))
  | ["aev", i] => stepShow (.read (.allEvents (root i)))
  | ["evo", i, t] => match fromHex t with
    | some t => stepShow (.read (.eventsOf (root i) t))
    | none => (s, "bad-op")
  | "dat" :: rest => match parseForest ("1" :: rest) with
    | some ([t], []) => atomicShow (docAddTreeOps s.heap.length t)
    | _ => (s, "bad-op")
  | "dac" :: rest => match parseForest ("1" :: rest) with
    -- a record decoded from another text and copied with DeepCopy (both reset the node cache), then
    -- handed to the generic Document.AddNode
    | some ([t], []) => atomicShow (Op.foreign :: docAddTreeOps s.heap.length t)
    | _ => (s, "bad-op")
  | "aic" :: p :: rest => match fromHex p, parseForest rest with
    | some p, some (ks, []) => atomicShow (addIndividualWithOps s.heap.length p ks)
    | _, _ => (s, "bad-op")
  | ["da", t, v, p] => match fromHex t, fromHex v, fromHex p with
    | some t, some v, some p => stepShow (.docAddNode t v p)
    | _, _, _ => (s, "bad-op")
  | ["ai", p] => match fromHex p with
    | some p => stepShow (.addIndividual p)
    | none => (s, "bad-op")
  | ["af", p] => match fromHex p with
    | some p => stepShow (.addFamily p)
    | none => (s, "bad-op")
  | ["afhw", p, h, w] => match fromHex p, optIdx s h, optIdx s w with
    | some p, some h, some w => stepShow (.addFamilyHW p h w)
    | _, _, _ => (s, "bad-op")
  | ["dd", r] => stepShow (.docDelete (root r))
  | "ds" :: m :: is => match m.toNat?, parseNats is with
    | some m, some is =>
      if is.length != m then (s, "bad-op") else
      match is.mapM (fun i => a.roots[i]?) with
      | some ks => stepShow (.docSetNodes ks)
      | none => (s, "bad")
    | _, _ => (s, "bad-op")
  | ["sh", f, i] => match optIdx s i with
    | some i => stepShow (.setHusband (root f) i)
    | none => (s, "bad-op")
  | ["sw", f, i] => match optIdx s i with
    | some i => stepShow (.setWife (root f) i)
    | none => (s, "bad-op")
  | ["shp", f, p] => match fromHex p with
    | some p => stepShow (.setHusbandPointer (root f) p)
    | none => (s, "bad-op")
  | ["swp", f, p] => match fromHex p with
    | some p => stepShow (.setWifePointer (root f) p)
    | none => (s, "bad-op")
  | ["ac", f, i] => stepShow (.addChild (root f) (root i))
  | ["aed", i, t, v] => match fromHex t, fromHex v with
    | some t, some v => stepShow (.addEventDate (root i) t v)
    | _, _ => (s, "bad-op")
  | ["ssx", i, v] => match fromHex v with
    | some v => stepShow (.setSex (root i) v)
    | none => (s, "bad-op")
  | cmd :: rest =>
    match takePath rest with
    | none => (s, "bad-op")
    | some (path, rest) =>
      let n := (resolve a path).getD (noNode s)
      match cmd, rest with
      | "gs", [] => stepShow (.gedcomString n)
      | "nwt", [t] => match fromHex t with
        | some t => stepShow (.read (.nodesWithTag n t))
        | none => (s, "bad-op")
      | "an", [t, v, p] => match fromHex t, fromHex v, fromHex p with
        | some t, some v, some p => stepShow (.addNode n t v p)
        | _, _, _ => (s, "bad-op")
      | "dnt", [t] => match fromHex t with
        | some t => stepShow (.deleteNodesWithTag n t)
        | none => (s, "bad-op")
      | "ant", rest => match parseForest ("1" :: rest) with
        | some ([t], []) => atomicShow (addTreeOps n s.heap.length t)
        | _ => (s, "bad-op")
      | "dn", [i] => match i.toNat? with
        | some i => stepShow (.deleteNode n (((a.kids n)[i]?).getD (noNode s)))
        | none => (s, "bad-op")
      | "sn", m :: is => match m.toNat?, parseNats is with
        | some m, some is =>
          if is.length != m then (s, "bad-op") else
          match is.mapM (fun i => (a.kids n)[i]?) with
          | some ks => stepShow (.setNodes n ks)
          | none => (s, "bad")
        | _, _ => (s, "bad-op")
      | _, _ => (s, "bad-op")
  | [] => (s, "bad-op")

def splitOps (toks : List String) : List (List String) :=
  let (cur, acc) := toks.foldl (fun (st : List String × List (List String)) t =>
    if t == ";" then ([], st.1.reverse :: st.2) else (t :: st.1, st.2)) ([], [])
  (if cur.isEmpty then acc else cur.reverse :: acc).reverse

def runHistory (fl : Flags) (toks : List String) : String :=
  match parseForest toks with
  | none => "bad-op"
  | some (f, rest) =>
    match rest with
    | "ops" :: rest =>
      let s := initOfForest f
      let (_, outs) := (splitOps rest).foldl (fun (acc : St × List String) op =>
        -- `rep n <op>`: the op n times in a row, one answer (the last); long silent histories
        let r := match op with
          | "rep" :: n :: inner => (List.range (n.toNat?.getD 0)).foldl (fun (st : St × String) _ => runOp fl st.1 inner) (acc.1, ".")
          | _ => runOp fl acc.1 op
        (r.1, r.2 :: acc.2)) (s, [])
      " ".intercalate outs.reverse
    | _ => "bad-op"

def flagsOfBits (bits : String) : Option Flags :=
  match bits.toList.map (· == '1') with
  | [a, b, c, d, e, f, g, h, i, j, k, l, m, n, o, p, q, r, t, u, v] =>
    some ⟨a, b, c, d, e, f, g, h, i, j, k, l, m, n, o, p, q, r, t, u, v⟩
  | _ => none

/-- requests about cache coherence (C13) -/
def handleCache (cmd : String) (rest : List String) : Option String :=
  match cmd with
  | "c13" => some (runHistory Cache.flags rest)
  | "c13f" =>
    match rest with
    | bits :: rest => match flagsOfBits bits with
      | some fl => some (runHistory fl rest)
      | none => some "bad-op"
    | [] => some "bad-op"
  | "c13flags" =>
    let f := Cache.flags
    some (String.ofList ([f.simpleAddResetsNodeCache, f.simpleDeleteResetsNodeCache, f.simpleSetNodesResetsNodeCache,
      f.docAddStoresPointer, f.docAddClearsFamilies, f.docDeleteRebuildsPointers, f.docDeleteClearsFamilies,
      f.docDeleteResetsIndividuals, f.addIndividualResetsIndividuals, f.addFamilyResetsFamilies,
      f.familyAddResetsCaches, f.familyDeleteResetsCaches, f.familySetNodesResetsCaches,
      f.setHusbandPointerClearsCache, f.setWifePointerClearsCache, f.deleteNodesWithTagCopies,
      f.warningsReadOnly, f.docSetNodesRebuildsPointers, f.docSetNodesClearsFamilies,
      f.docSetNodesResetsIndividuals, f.docAddBumpsLinks].map fun b => if b then '1' else '0'))
  | _ => none

end Driver
