import Gedcom.Model.Resolve
import Driver.Util
import Driver.Tree
namespace Driver
open Gedcom Gedcom.Resolve

private def showRes {α} (f : α → String) : Res α → String
  | .ok a => f a
  | .panic s => "panic:" ++ s.name

private def showOptEnt : Option Ent → String
  | none => "nil"
  | some e => toString e.idx

private def commaSep (xs : List String) : String :=
  if xs.isEmpty then "-" else ",".intercalate xs

private def showLetters (ls : List UInt8) : String :=
  if ls.isEmpty then "-" else String.ofList (ls.map (fun b => Char.ofNat b.toNat))

private def insertSorted (x : Nat) : List Nat → List Nat
  | [] => [x]
  | y :: ys => if x < y then x :: y :: ys else if x == y then y :: ys else y :: insertSorted x ys

/-- the key set of the Go map: nil first, then by position in the file -/
private def showKeySet (ks : List (Option Ent)) : String :=
  let codes := ks.foldl (fun acc k => insertSorted (match k with | none => 0 | some e => e.idx + 1) acc) []
  commaSep (codes.map fun c => if c == 0 then "nil" else toString (c - 1))

private def bitAt (bits : String) (i : Nat) : Bool := bits.toList.getD i '0' == '1'

/-- the library layer on one document: every reference accessor on every record -/
def resolveAll (fl : Flags) (doc : Doc) : String :=
  let perRoot := (roots doc).map fun e =>
    if isFam e.node then
      let h := showRes showOptEnt (husbandIndividual fl doc e.node)
      let w := showRes showOptEnt (wifeIndividual fl doc e.node)
      let cs := commaSep ((childNodes e.node).map fun c => showRes showOptEnt (childIndividual fl doc c))
      let ci := showRes (fun l => commaSep (l.map (fun (x : Ent) => toString x.idx)))
        (childNodesIndividuals fl doc (childNodes e.node))
      s!"F{e.idx} h={h} w={w} c={cs} ci={ci}"
    else if isIndi e.node then
      let sp := showRes (fun l => commaSep (l.map showOptEnt)) (spouses fl doc e)
      let fam := showRes (fun l => commaSep (l.map (fun (x : Ent) => toString x.idx))) (familiesOf fl doc e)
      let par := showRes (fun l => commaSep (l.map (fun (x : Ent) => toString x.idx))) (parents fl doc e)
      let ch := showRes (fun (l : List Node) => toString l.length) (childrenOf fl doc e)
      let sck := showRes showKeySet (spouseChildrenKeys fl doc e)
      let sn := toHex (surnameOf (primaryName e.node))
      s!"I{e.idx} sp={sp} fam={fam} par={par} ch={ch} sck={sck} sn={sn} n={(names e.node).length}"
    else s!"O{e.idx}"
  let walk := showRes toString (warningsWalk fl doc)
  let letters := showLetters (indexLetters doc (fun _ => true))
  let sl := showRes (fun l => toString l.length) (surnameList doc)
  " ".intercalate perRoot ++ s!" | walk={walk} letters={letters} surnames={sl}"

def handleResolve (cmd : String) (rest : List String) : Option String :=
  match cmd with
  | "c14res" =>
    match parseForest rest with
    | some (doc, []) => some (resolveAll generatedFlags doc)
    | _ => some "bad-op"
  | "c14cmd" =>
    -- c14cmd <warnings|publish|diff> <showIndividuals> <showFamilies> <showSurnames> <listed bits> <page bits> <forest>
    match rest with
    | which :: si :: sf :: ss :: listed :: paged :: forest =>
      match parseForest forest with
      | some (doc, []) =>
        let fl := generatedFlags
        let r : Res Unit :=
          match which with
          | "warnings" => (warningsWalk fl doc) >>= fun _ => pure ()
          | "publish" =>
            (publish fl doc (si == "1") (sf == "1") (ss == "1") (fun e => bitAt listed e.idx) (fun e => bitAt paged e.idx))
              >>= fun _ => pure ()
          | "diff" => diffSide fl doc
          | _ => pure ()
        some (showRes (fun _ => "ok") r)
      | _ => some "bad-op"
    | _ => some "bad-op"
  | "c14vtp" =>
    match rest with
    | [h] => match fromHex h with
      | some v => some (showRes toHex (valueToPointer generatedFlags v))
      | none => some "bad-op"
    | _ => some "bad-op"
  | "c14name" =>
    -- c14name <hex NAME value> : surname, index letter
    match rest with
    | [h] => match fromHex h with
      | some v =>
        let sn := surnameOf (some (.mk tNAME v [] []))
        some s!"{toHex sn} {Char.ofNat (indexLetterOf sn).toNat}"
      | none => some "bad-op"
    | _ => some "bad-op"
  | "c14evd" =>
    -- c14evd <#births> <#baptisms> <#deaths> <#burials> : the labels of the events IndividualDates shows
    match parseNats rest with
    | some [b, bp, d, bu] =>
      let mk (n : Nat) (l : String) : List String := (List.range n).map (fun i => s!"{l}{i}")
      some (showRes (fun (l : List String) => if l.isEmpty then "-" else ",".intercalate l)
        (eventDates (mk b "b") (mk bp "bap") (mk d "d") (mk bu "bur")))
    | _ => some "bad-op"
  | "c14evdate" =>
    -- c14evdate <#dates> : which date EventDate writes
    match parseNats rest with
    | some [n] => some (showRes (fun (o : Option Nat) => match o with | some i => toString i | none => "-")
        (eventDate (List.range n)))
    | _ => some "bad-op"
  | "c14places" =>
    -- c14places <hex key>* : one place page per key of the place map
    match rest.mapM fromHex with
    | some keys => some (showRes (fun (l : List Str) => if l.isEmpty then "-" else ",".intercalate (l.map toHex))
        (placePages (keys.map fun k => (k, k))))
    | none => some "bad-op"
  | "c14starts" =>
    match rest with
    | [h, l] => match fromHex h, fromHex l with
      | some v, some [b] => some (showRes (fun x => b2s x) (startsWithLetter v b))
      | _, _ => some "bad-op"
    | _ => some "bad-op"
  | _ => none

end Driver
