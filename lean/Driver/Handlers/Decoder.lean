import Gedcom.Model.Decoder
import Gedcom.Generated.Tags
import Gedcom.Model.Regex
import Gedcom.Model.MultiLine
import Gedcom.Generated.LineRegex
import Driver.Util
import Driver.Tree
namespace Driver
open Gedcom Gedcom.Dec

def strToString (s : Str) : String := String.ofList (s.map (fun b => Char.ofNat b.toNat))

partial def dumpNode (depth : Nat) : Node → (Nat × String)
  | .mk t v p ks =>
    let me := s!" {depth} {Generated.kindOfTag (strToString t)} {toHex t} {toHex v} {toHex p}"
    ks.foldl (fun (acc : Nat × String) k =>
      let (n, s) := dumpNode (depth + 1) k
      (acc.1 + n, acc.2 ++ s)) (1, me)

/-- "<count> (<depth> <kind> <tag> <value> <ptr>)*" in preorder -/
def dumpForest (f : Forest) : String :=
  let (n, s) := f.foldl (fun (acc : Nat × String) k =>
      let (n, s) := dumpNode 0 k
      (acc.1 + n, acc.2 ++ s)) (0, "")
  toString n ++ s

def showOutcome : Outcome → String
  | .ok d => s!"ok bom={b2s d.hasBOM} {dumpForest d.nodes}"
  | .error n => s!"err {n}"
  | .panic .indentTooLarge => "panic indentTooLarge"

/-- requests about encoding and decoding (C01–C03) -/
def handleDecoder (cmd : String) (rest : List String) : Option String :=
  match cmd with
  | "decode" =>
    -- decode <M><I> <hex>
    match rest with
    | [opts, h] =>
      match opts.toList, fromHex h with
      | [m, i], some s =>
        some (showOutcome (decode ⟨m == '1', i == '1'⟩ s))
      | _, _ => some "bad-op"
    | _ => some "bad-op"
  | "encode" =>
    -- encode <bom> <forest>
    match rest with
    | b :: toks =>
      match parseForest toks with
      | some (f, []) => some (toHex (encode ⟨b == "1", f⟩))
      | _ => some "bad-op"
    | _ => some "bad-op"
  | "legal" =>
    -- legal <forest> : is the forest in the domain of C01.decode_encode (Dec.legalDocB)?
    match parseForest rest with
    | some (f, []) => some (b2s (legalDocB ⟨false, f⟩))
    | _ => some "bad-op"
  | "legalml" =>
    -- legalml <forest> : hypothesis of C01.decode_encode_multiline / C02.normal_form_multiline
    match parseForest rest with
    | some (f, []) => some (b2s (legalMLDocB ⟨false, f⟩))
    | _ => some "bad-op"
  | "regex" =>
    -- regex <hex line> : the source's line pattern (translated on every run) through the
    -- backtracking semantics; answer "no" or the four submatches
    match rest with
    | [h] =>
      match fromHex h with
      | some s =>
        match Regex.find Generated.lineRegex s with
        | none => some "no"
        | some c => some s!"{toHex (c 1)} {toHex (c 2)} {toHex (c 3)} {toHex (c 4)}"
      | none => some "bad-op"
    | _ => some "bad-op"
  | "parseline" =>
    -- parseline <hex line> : the model's deterministic parser
    match rest with
    | [h] =>
      match fromHex h with
      | some s =>
        match parseLine s with
        | none => some "no"
        | some l => some s!"{l.level} {toHex l.ptr} {toHex l.tag} {toHex l.value}"
      | none => some "bad-op"
    | _ => some "bad-op"
  | "trim" =>
    match rest with
    | [h] => (fromHex h).map (fun s => toHex (trimSpace s)) |>.orElse (fun _ => some "bad-op")
    | _ => some "bad-op"
  | _ => none

end Driver
