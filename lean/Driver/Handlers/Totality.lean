import Gedcom.Model.Totality
import Gedcom.Model.PartialOpsTable
import Driver.Util
namespace Driver
open Gedcom Gedcom.Totality

private def showR {α} (f : α → String) : R α → String
  | .ok a => "ok:" ++ f a
  | .panic o => "panic:" ++ o.name

private def unH (w : String) : Option Str := fromHex (String.ofList (w.toList.drop 1))

private def commaNat (xs : List Nat) : String :=
  if xs.isEmpty then "-" else ",".intercalate (xs.map toString)

private def joinBytes (sep : Str) : List Str → Str
  | [] => []
  | [x] => x
  | x :: r => x ++ sep ++ joinBytes sep r

/-- requests of the root-package totality layer (C14, round 4) -/
def handleTotality (cmd : String) (rest : List String) : Option String :=
  match cmd with
  | "c14tprog" =>
    match rest with
    | [s, r] => match s.toInt?, r.toNat? with
      | some step, some results => some (showR commaNat (progressDones step results))
      | _, _ => some "bad-args"
    | _ => some "bad-args"
  | "c14tjobs" =>
    match rest with
    | [s] => match s.toInt? with
      | some n => some (showR toString (concurrentJobs n))
      | none => some "bad-args"
    | _ => some "bad-args"
  | "c14tsexes" =>
    match rest.mapM unH with
    | some sexes =>
      some (showR (fun o => match o with
        | none => "none"
        | some (init, last) => "h" ++ toHex (joinBytes (ascii ", ") init ++ ascii " and " ++ last ++ ascii "."))
        (sexesSentence sexes))
    | none => some "bad-args"
  | "c14tname" =>
    match rest with
    | [w] => match unH w with
      | some v =>
        some s!"g={showR toHex (givenNameFallback v)} s={showR toHex (surnameSliced v)} x={showR toHex (suffixFallback v)}"
      | none => some "bad-args"
    | _ => some "bad-args"
  | "c14tplace" =>
    match rest with
    | [w] => match unH w with
      | some v => some (showR (fun l => ",".intercalate (l.map fun p => "h" ++ toHex p)) (jurisdictionalEntities v))
      | none => some "bad-args"
    | _ => some "bad-args"
  | "c14tmonth" =>
    match rest with
    | [s] => match s.toInt? with
      | some m => some (showR (fun cs => "h" ++ toHex (ascii (String.ofList cs))) (monthAbbrev m))
      | none => some "bad-args"
    | _ => some "bad-args"
  | "c14tops" => some PartialOpsTable.summary
  | _ => none

end Driver
