import Gedcom.Model.Merge
import Driver.Util
import Driver.Tree
import Gedcom.Model.EqualTies
namespace Driver
open Gedcom

/-- preorder dump "<count> (<depth> <origin> <tag> <value> <ptr>)*"; origin = `I<k>` for the k-th
    input object (inputs are numbered in preorder, left first), `N` for an object made by the call -/
partial def dumpLabelled (nInputs : Nat) (ns : List INode) : String :=
  let rec go (d : Nat) : INode → String
    | .mk i t v p ks =>
      let o := if i < nInputs then s!"I{i}" else "N"
      ks.foldl (fun acc k => acc ++ go (d + 1) k) s!" {d} {o} {toHex t} {toHex v} {toHex p}"
  let body := ns.foldl (fun acc n => acc ++ go 0 n) ""
  s!"{(ns.map fun n => n.ids.length).foldl (· + ·) 0}{body}"

/-- the family every HUSB / WIFE / CHIL object of the inputs belongs to, as the decoder assigns it
    when the inputs are decoded from one text behind a leading `0 @F0@ FAM` record: the last FAM
    node before it in document order -/
partial def famEnv (cur : Nat × Str) : List INode → (Nat × Str) × List (Nat × Nat × Str)
  | [] => (cur, [])
  | .mk i t _ p ks :: rest =>
    let cur1 := if t == tagFAM then (i + 1, p) else cur
    let here := if needsFamily t then [(i, cur1)] else []
    let a := famEnv cur1 ks
    let b := famEnv a.1 rest
    (b.1, here ++ a.2 ++ b.2)

def showAdds (l : List Str) : String :=
  if l.isEmpty then "-" else ",".intercalate (l.map fun p => toHex p)

def initSt (n : Nat) (inputs : List INode) : MSt :=
  { next := n, writes := [], oof := false, famOf := (famEnv (0, lit "F0") inputs).2 }

/-- the right-hand positions that were merged into a left node, ascending, e.g. `0,3` (`-` = none) -/
def showMerged (es : List Elem) : String :=
  let js := es.filterMap fun e => match e.prov with | [.L _, .R j] => some j | _ => none
  let sorted := (List.range (js.foldl max 0 + 1)).filter js.contains
  if js.isEmpty then "-" else ",".intercalate (sorted.map toString)

/-- requests about MergeNodes / MergeNodeSlices (C09) -/
def handleMerge (cmd : String) (rest : List String) : Option String :=
  match cmd with
  | "mnodes" =>
    -- mnodes <forest of two trees l r>
    match parseForest rest with
    | some ([l, r], []) =>
      let a := labelNode 0 l
      let b := labelNode a.2 r
      let n := b.2
      match mergeNodes codeFlags a.1 b.1 (initSt n [a.1, b.1]) with
      | .error => some "err"
      | .panic => some "panic"
      | .outOfFuel => some "oof"
      | .ok m st => some s!"ok written={b2s (st.writes.any (· < n))} adds={showAdds st.famAdds} {dumpLabelled n [m]}{tieMark [l, r] [l, r]}"
    | _ => some "bad-op"
  | "mslice" =>
    -- mslice <eq|always|never> <forest left> <forest right>
    match rest with
    | fn :: more =>
      match parseForest more with
      | some (l, more') =>
        match parseForest more' with
        | some (r, []) =>
          let a := labelList 0 l
          let b := labelList a.2 r
          let n := b.2
          let f : Option MergeFn :=
            match fn with
            | "eq" => some (eqMergeF codeFlags (mergeFuel a.1 b.1))
            | "always" => some alwaysMerge
            | "never" => some neverMerge
            -- merge (like `always`) only nodes with the same pointer / only when the right node's
            -- value has an even number of bytes; decline otherwise
            | "sameptr" => some fun x y s => if x.ptr == y.ptr then alwaysMerge x y s else (none, s)
            | "evenlen" => some fun x y s => if y.value.length % 2 == 0 then alwaysMerge x y s else (none, s)
            | _ => none
          match f with
          | none => some "bad-op"
          | some f =>
            match mergeNodeSlicesO codeFlags f a.1 b.1 (initSt n (a.1 ++ b.1)) with
            | .panic => some "panic"
            | .outOfFuel => some "oof"
            | .ok es st =>
              some s!"ok len={es.length} merged={showMerged es} written={b2s (st.writes.any (· < n))} adds={showAdds st.famAdds} {dumpLabelled n (es.map (·.node))}{tieMark (l ++ r) (l ++ r)}"
        | _ => some "bad-op"
      | none => some "bad-op"
    | _ => some "bad-op"
  | _ => none

end Driver
