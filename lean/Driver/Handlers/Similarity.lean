import Gedcom.Model.SimilarityRaw
import Gedcom.Model.Float64
import Gedcom.Model.Float64Jaro
import Driver.Util
namespace Driver.SimH
open Driver
open Gedcom Gedcom.Sim

/-! Requests about similarity scores (C12).  Token formats (no spaces inside a token):
    rat `n/d` | `n`;  opts `default` | eleven comma-separated fields;  date range `d.m.y.d.m.y` | `n`;
    individual `id:hexname,hexname…|_:birth:death` | `n`;  list `indi;indi…` | `_`;
    family `indi&indi`;  families `fam;fam…` | `_`;  surround `self|spouses|children|parents`. -/

def parseRat (s : String) : Option Rat :=
  match s.splitOn "/" with
  | [n] => (fun (n : Int) => (n : Rat)) <$> n.toInt?
  | [n, d] => do
    let n ← n.toInt?
    let d ← d.toNat?
    if d = 0 then none else pure ((n : Rat) / (d : Rat))
  | _ => none

def showRat (r : Rat) : String := s!"{r.num}/{r.den}"

def parseOpts (s : String) : Option SimOpts :=
  if s == "default" then some defaultOpts else
  match s.splitOn "," with
  | [my, ms, mw, iw, pw, sw, cw, ratio, boost, pre, ppa] => do
    let my ← parseRat my
    let ms ← parseRat ms
    let mw ← parseRat mw
    let iw ← parseRat iw
    let pw ← parseRat pw
    let sw ← parseRat sw
    let cw ← parseRat cw
    let ratio ← parseRat ratio
    let boost ← parseRat boost
    let pre ← pre.toNat?
    let ppa ← parseRat ppa
    pure ⟨my, ms, mw, iw, pw, sw, cw, ratio, boost, pre, ppa⟩
  | _ => none

/-- `some none` = nil date node -/
def parseDateR (s : String) : Option (Option DateR) :=
  if s == "n" then some none else
  match parseNats (s.splitOn ".") with
  | some [d1, m1, y1, d2, m2, y2] => some (some ⟨⟨d1, m1, y1⟩, ⟨d2, m2, y2⟩⟩)
  | _ => none

def parseNames (s : String) : Option (List Str) :=
  if s == "_" then some [] else (s.splitOn ",").mapM fromHex

def parseStrs (s : String) : Option (List Str) :=
  if s == "_" then some [] else (s.splitOn ",").mapM fromHex

/-- `some none` = nil individual.  Two formats: `id:names:birth:death` with the estimated dates
    already parsed (`d.m.y.d.m.y` | `n`), and the raw record
    `id:names:births:baptisms:deaths:burials` with the DATE values of the events as hex strings
    (`_` = no date), which the model parses and selects from itself. -/
def parseIndi (s : String) : Option (Option Indi) :=
  if s == "n" then some none else
  match s.splitOn ":" with
  | [id, names, b, d] => do
    let id ← id.toNat?
    let names ← parseNames names
    let b ← parseDateR b
    let d ← parseDateR d
    pure (some ⟨id, names, b, d⟩)
  | [id, names, births, baptisms, deaths, burials] => do
    let id ← id.toNat?
    let names ← parseNames names
    let births ← parseStrs births
    let baptisms ← parseStrs baptisms
    let deaths ← parseStrs deaths
    let burials ← parseStrs burials
    pure (some (RawIndi.toIndi ⟨id, names, births, baptisms, deaths, burials⟩))
  | _ => none

/-- the raw records of a request token (individuals separated by `;`, `|`, `&`): does the selection
    of an estimated date rest on an exact tie of `Years()` somewhere? -/
def rawDateTies (tok : String) : Bool :=
  let parts := (tok.splitOn "|").flatMap fun a => (a.splitOn ";").flatMap fun b => b.splitOn "&"
  parts.any fun t =>
    match t.splitOn ":" with
    | [id, names, births, baptisms, deaths, burials] =>
      match id.toNat?, parseNames names, parseStrs births, parseStrs baptisms, parseStrs deaths, parseStrs burials with
      | some id, some names, some b, some p, some d, some u => RawIndi.dateTie ⟨id, names, b, p, d, u⟩
      | _, _, _, _, _, _ => false
    | _ => false

def parseIndis (s : String) : Option (List Indi) :=
  if s == "_" then some [] else
  (s.splitOn ";").mapM fun t => do
    let i ← parseIndi t
    i

def parseFam (s : String) : Option Fam :=
  match s.splitOn "&" with
  | [h, w] => do
    let h ← parseIndi h
    let w ← parseIndi w
    pure ⟨h, w⟩
  | _ => none

def parseFams (s : String) : Option (List Fam) :=
  if s == "_" then some [] else (s.splitOn ";").mapM parseFam

def parseSurround (s : String) : Option Surround :=
  match s.splitOn "|" with
  | [self, sp, ch, pa] => do
    let self ← parseIndi self
    let self ← self
    let sp ← parseIndis sp
    let ch ← parseIndis ch
    let pa ← parseFams pa
    pure ⟨self, sp, ch, pa⟩
  | _ => none

def eps : Rat := (1 : Rat) / 1000000000

def close (x y : Rat) : Bool := decide (x - y < eps) && decide (y - x < eps)

/-! "tight" flags: a decision of the float64 implementation that compares two values whose exact
    counterparts are closer than 1e-9 may legitimately go either way; the harness sets such cases
    aside as inconclusive when (and only when) the two sides then differ. -/

def tightJW (a b : Str) (boost : Rat) : Bool :=
  let j := jaro a b
  close j boost && j != 0 && j != 1

def tightNames (x y : Indi) (o : SimOpts) : Bool :=
  x.names.any fun n => y.names.any fun m => tightJW (comparedNames n m).1 (comparedNames n m).2 o.jaroBoostThreshold

def sameData (x y : Indi) : Bool := x.names == y.names && x.birth == y.birth && x.death == y.death

def tightList (xs ys : List Indi) (o : SimOpts) : Bool :=
  let cells := matrix xs ys o
  cells.any (fun c => tightNames c.a c.b o ||
    (close c.sim o.minimumSimilarity && !(c.sim == 0 && o.minimumSimilarity == 0))) ||
  cells.any (fun c => cells.any fun d =>
    close c.sim d.sim && !(sameData c.a d.a && sameData c.b d.b) && !(sameData c.a d.b && sameData c.b d.a))

def tightFam (f g : Fam) (o : SimOpts) : Bool :=
  (match f.husband, g.husband with | some x, some y => tightNames x y o | _, _ => false) ||
  (match f.wife, g.wife with | some x, some y => tightNames x y o | _, _ => false)

def tightSurround (x y : Surround) (o : SimOpts) : Bool :=
  let ind := indiSimilarity x.self y.self o
  tightNames x.self y.self o ||
  close (ind * o.individualWeight)
    (o.minimumWeightedSimilarity - o.parentsWeight - o.spousesWeight - o.childrenWeight) ||
  tightList x.spouses y.spouses o || tightList x.children y.children o ||
  x.parents.any fun p => y.parents.any fun q => tightFam p q o

end Driver.SimH

namespace Driver
open Driver.SimH Gedcom Gedcom.Sim

def handleSimilarity (cmd : String) (rest : List String) : Option String :=
  match cmd with
  | "jaro" =>
    match rest with
    | [a, b] => some <| match fromHex a, fromHex b with
      | some a, some b => showRat (jaro a b)
      | _, _ => "bad-op"
    | _ => some "bad-op"
  | "jarof" =>
    -- the float64 Jaro value itself, through the binary64 model, in lowest terms mant/2^frac
    match rest with
    | [a, b] => some <| match fromHex a, fromHex b with
      | some a, some b => let v := F64.normalize (F64.jaroF a b); s!"{v.mant} {v.frac}"
      | _, _ => "bad-op"
    | _ => some "bad-op"
  | "jwf" =>
    -- JaroWinkler on the binary64 model: boost = float64(n)/float64(d)
    match rest with
    | [a, b, boost, pre] => some <| match fromHex a, fromHex b, parseNats (boost.splitOn "/"), pre.toNat? with
      | some a, some b, some bs, some pre =>
        let bo : Option F64.Dbl := match bs with
          | [n] => some (F64.div (F64.ofNat n) (F64.ofNat 1))
          | [n, d] => if d = 0 then none else some (F64.div (F64.ofNat n) (F64.ofNat d))
          | _ => none
        match bo with
        | some bo => let v := F64.normalize (F64.jaroWinklerF a b bo pre); s!"{v.mant} {v.frac}"
        | none => "bad-op"
      | _, _, _, _ => "bad-op"
    | _ => some "bad-op"
  | "strsimf" =>
    match rest with
    | [a, b, boost, pre] => some <| match fromHex a, fromHex b, parseNats (boost.splitOn "/"), pre.toNat? with
      | some a, some b, some bs, some pre =>
        let bo : Option F64.Dbl := match bs with
          | [n] => some (F64.div (F64.ofNat n) (F64.ofNat 1))
          | [n, d] => if d = 0 then none else some (F64.div (F64.ofNat n) (F64.ofNat d))
          | _ => none
        match bo with
        | some bo => let v := F64.normalize (F64.stringSimilarityF a b bo pre); s!"{v.mant} {v.frac}"
        | none => "bad-op"
      | _, _, _, _ => "bad-op"
    | _ => some "bad-op"
  | "jw" =>
    match rest with
    | [a, b, boost, pre] => some <| match fromHex a, fromHex b, parseRat boost, pre.toNat? with
      | some a, some b, some boost, some pre =>
        s!"{showRat (jaroWinkler a b boost pre)} {b2s (tightJW a b boost)}"
      | _, _, _, _ => "bad-op"
    | _ => some "bad-op"
  | "strsim" =>
    match rest with
    | [a, b, boost, pre] => some <| match fromHex a, fromHex b, parseRat boost, pre.toNat? with
      | some a, some b, some boost, some pre =>
        let cn := comparedNames a b
        s!"{showRat (stringSimilarity a b boost pre)} {b2s (tightJW cn.1 cn.2 boost)} {toHex cn.1} {toHex cn.2}"
      | _, _, _, _ => "bad-op"
    | _ => some "bad-op"
  | "datesim" =>
    match rest with
    | [l, r, my] => some <| match parseDateR l, parseDateR r, parseRat my with
      | some l, some r, some my =>
        if my == 0 then "nan" else showRat (dateSimilarity l r my)
      | _, _, _ => "bad-op"
    | _ => some "bad-op"
  | "datesimf" =>
    -- the float64 value itself, through the binary64 model: DateRange.Years() of both ranges,
    -- maxYears = float64(n)/float64(d), DateRange.Similarity; answer in lowest terms mant/2^frac
    match rest with
    | [l, r, my] => some <| match parseDateR l, parseDateR r, parseNats (my.splitOn "/") with
      | some (some l), some (some r), some mys =>
        let m : Option F64.Dbl := match mys with
          | [n] => if n = 0 then none else some (F64.div (F64.ofNat n) (F64.ofNat 1))
          | [n, d] => if n = 0 ∨ d = 0 then none else some (F64.div (F64.ofNat n) (F64.ofNat d))
          | _ => none
        match m with
        | some m =>
          let yl := F64.rangeYears (F64.years l.start) (F64.years l.stop)
          let yr := F64.rangeYears (F64.years r.start) (F64.years r.stop)
          let v := F64.normalize (F64.dateSimilarity yl yr m)
          s!"{v.mant} {v.frac}"
        | none => "bad-op"
      | _, _, _ => "bad-op"
    | _ => some "bad-op"
  | "datesim-s" =>
    -- DATE values as hex strings (`n` = nil node), parsed by the model
    match rest with
    | [l, r, my] =>
      let str (t : String) : Option (Option Str) := if t == "n" then some none else (fromHex t).map some
      some <| match str l, str r, parseRat my with
      | some l, some r, some my =>
        if my == 0 then "nan" else showRat (dateStringSimilarity l r my)
      | _, _, _ => "bad-op"
    | _ => some "bad-op"
  | "sim-indi" =>
    match rest with
    | [x, y, o] => some <| match parseIndi x, parseIndi y, parseOpts o with
      | some x, some y, some o =>
        if o.maxYears == 0 then "nan" else
        let t := match x, y with | some x, some y => tightNames x y o | _, _ => false
        s!"{showRat (individualSimilarity x y o)} {b2s (t || rest.any rawDateTies)}"
      | _, _, _ => "bad-op"
    | _ => some "bad-op"
  | "weightedf" =>
    -- WeightedSimilarity on the binary64 model: four components and four weights as exact
    -- float64 values `mant frac`
    match parseNats rest with
    | some [a1, a2, b1, b2, c1, c2, d1, d2, e1, e2, f1, f2, g1, g2, h1, h2] =>
      let v := F64.normalize (F64.weightedF ⟨a1, a2⟩ ⟨b1, b2⟩ ⟨c1, c2⟩ ⟨d1, d2⟩ ⟨e1, e2⟩ ⟨f1, f2⟩ ⟨g1, g2⟩ ⟨h1, h2⟩)
      some s!"{v.mant} {v.frac}"
    | _ => some "bad-op"
  | "sim-indif" =>
    -- (*IndividualNode).Similarity on the binary64 model, the estimated dates selected with the
    -- float64 comparison; `skip` outside the domain of Years() or of the options
    match rest with
    | [x, y, o] =>
      let raw (t : String) : Option Sim.RawIndi :=
        match t.splitOn ":" with
        | [id, names, births, baptisms, deaths, burials] => do
          let id ← id.toNat?
          let names ← parseNames names
          let births ← parseStrs births
          let baptisms ← parseStrs baptisms
          let deaths ← parseStrs deaths
          let burials ← parseStrs burials
          pure ⟨id, names, births, baptisms, deaths, burials⟩
        | _ => none
      some <| match raw x, raw y, parseOpts o with
      | some x, some y, some o =>
        if o.maxYears ≤ 0 || o.nameToDateRatio < 0 || o.nameToDateRatio > 1 || o.jaroBoostThreshold < 0 then "skip"
        else if !(F64.rawInDomain x && F64.rawInDomain y) then "skip"
        else let v := F64.normalize (F64.indiSimilarityF (F64.rawToIndiF x) (F64.rawToIndiF y) o); s!"{v.mant} {v.frac}"
      | _, _, _ => "skip"
    | _ => some "bad-op"
  | "sim-list" =>
    match rest with
    | [xs, ys, o] => some <| match parseIndis xs, parseIndis ys, parseOpts o with
      | some xs, some ys, some o =>
        if o.maxYears == 0 then "nan" else
        s!"{showRat (listSimilarity xs ys o)} {b2s (tightList xs ys o || rest.any rawDateTies)}"
      | _, _, _ => "bad-op"
    | _ => some "bad-op"
  | "sim-fam" =>
    match rest with
    | [f, g, o] => some <| match parseFam f, parseFam g, parseOpts o with
      | some f, some g, some o =>
        if o.maxYears == 0 then "nan" else
        s!"{showRat (familySimilarity f g o)} {b2s (tightFam f g o || rest.any rawDateTies)}"
      | _, _, _ => "bad-op"
    | _ => some "bad-op"
  | "sim-surr" =>
    match rest with
    | [x, y, o, force] => some <| match parseSurround x, parseSurround y, parseOpts o with
      | some x, some y, some o =>
        if o.maxYears == 0 then "nan" else
        let s := surroundingSimilarity x y o (force == "1")
        s!"{showRat s.parents} {showRat s.individual} {showRat s.spouses} {showRat s.children} {showRat (weightedSimilarity s)} {b2s (tightSurround x y o || rest.any rawDateTies)}"
      | _, _, _ => "bad-op"
    | _ => some "bad-op"
  | _ => none

end Driver
