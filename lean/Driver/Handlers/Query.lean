import Gedcom.Model.Query
import Driver.Util
import Driver.Tree
namespace Driver
open Gedcom Gedcom.Q

def qHex (s : Str) : String := toHex s

mutual
partial def qDumpExpr : Expr → String
  | .const s => "C" ++ qHex s
  | .acc q => "A" ++ qHex q
  | .var n => "V" ++ qHex n
  | .call f args => "F" ++ funType f ++ "[" ++ ",".intercalate (args.map qDumpStmt) ++ "]"
  | .question => "Q"
  | .obj fs =>
    "O{" ++ ",".intercalate (fs.map (fun kv => qHex kv.1 ++ "=" ++ qDumpStmt kv.2)) ++ "}"
  | .bin l op r => "B(" ++ qDumpExpr l ++ " " ++ op ++ " " ++ qDumpExpr r ++ ")"
partial def qDumpStmt : Stmt → String
  | .mk n es => "S" ++ qHex n ++ "(" ++ "|".intercalate (es.map qDumpExpr) ++ ")"
end

def qDumpEngine (e : Engine) : String := ";".intercalate (e.map qDumpStmt)

partial def qDumpJ : J → String
  | .null => "n"
  | .bool b => if b then "t" else "f"
  | .num i => "i" ++ toString i
  | .frac n d => "r" ++ toString n ++ "/" ++ toString d
  | .str s => "s" ++ qHex s
  | .arr xs => "[ " ++ " ".intercalate (xs.map qDumpJ) ++ " ]"
  | .obj fs => "{ " ++ " ".intercalate (fs.map (fun kv => "k" ++ qHex kv.1 ++ " " ++ qDumpJ kv.2)) ++ " }"

def qParseDocs (toks : List String) : Option (List Forest) :=
  match toks with
  | n :: rest => do
    let n ← n.toNat?
    let rec go : Nat → List String → Option (List Forest)
      | 0, _ => some []
      | k+1, ts => do
        let (f, ts') ← parseForest ts
        let fs ← go k ts'
        pure (f :: fs)
    go n rest
  | [] => none

def qFmtFlags : FmtFlags := ⟨Generated.Query.fmtIsNilPanics, Generated.Query.fmtCsvNilPanics⟩

def qOutcomeDetail : Outcome Val → String
  | .ok _ => "value"
  | .error k => "error:" ++ (match k with
      | .noSuchAccessor => "accessor" | .methodPanicked => "method" | .noSuchVariable => "variable"
      | .argCount => "args" | .atoi => "atoi" | .notDocument => "notdoc" | .cycle => "cycle"
      | .recovered _ => "recovered")
  | .panic _ => "panic"
  | .diverged => "fatal"
  | .unsupported w => "unsupported:" ++ w.replace " " "_"

/-- requests about the query language (C15, C16) -/
def handleQuery (cmd : String) (rest : List String) : Option String :=
  match cmd with
  | "qtok" =>
    match rest with
    | [h] =>
      match fromHex h with
      | some s =>
        let ts := tokenize s
        some (ts.foldl (fun acc t => acc ++ " " ++ toHex (Q.ascii t.kind) ++ ":" ++ qHex t.value) (toString ts.length))
      | none => some "bad-op"
    | _ => some "bad-op"
  | "qparse" =>
    match rest with
    | [h] =>
      match fromHex h with
      | some s =>
        match parse s with
        | .ok e => some ("ok " ++ qDumpEngine e)
        | .syntaxError => some "error"
      | none => some "bad-op"
    | _ => some "bad-op"
  | "qeval" =>
    -- qeval <mode> <year> <hexquery> <ndocs> <forest>… ; mode c = classes only, j = with the JSON
    -- value; <year> is the current year (IsLiving)
    match rest with
    | mode :: year :: h :: docToks =>
      match fromHex h, qParseDocs docToks, year.toNat? with
      | some s, some docs, some now =>
        match parse s with
        | .syntaxError => some "parse-error"
        | .ok eng =>
          let fuel := defaultFuel docs eng
          let raw := evalRaw now Generated.Query.cycleGuard fuel docs eng
          let top := topOf raw
          let fmts := match top with
            | .ok v => ",".intercalate (["json", "pretty-json", "csv", "gedcom", "html"].map (fun f => (formatOutcome qFmtFlags f v).cls))
            | _ => "-"
          let js := if mode == "j" then
              (match top with
               | .ok v => (match toJ v with | some j => " json=" ++ qDumpJ j | none => " json=?")
               | _ => "")
            else ""
          some s!"raw={qOutcomeDetail raw} top={top.cls} fmt={fmts}{js}"
      | _, _, _ => some "bad-op"
    | _ => some "bad-op"
  | "qnum" =>
    -- qnum <op> <hexleft> <hexright>: the operator functions on two strings
    match rest with
    | [op, l, r] =>
      match fromHex l, fromHex r with
      | some a, some b =>
        some (match applyOpStr Generated.Query.nanIsNumeric op a b with
          | some x => b2s x
          | none => "?")
      | _, _ => some "bad-op"
    | _ => some "bad-op"
  | _ => none

end Driver
