import Gedcom.Model.Compare
import Gedcom.Model.Float64
import Driver.Util
namespace Driver
open Gedcom

/-- requests about dates, the calendar and range comparison (C05, C06) -/
def handleDates (cmd : String) (rest : List String) : Option String :=
  match cmd with
  | "cmp" =>
    -- cmp d m y  d m y  d m y  d m y : receiver start, receiver end, argument start, argument end
    match parseNats rest with
    | some [d1, m1, y1, d2, m2, y2, d3, m3, y3, d4, m4, y4] =>
      let r := compareDates ⟨d1, m1, y1⟩ ⟨d2, m2, y2⟩ ⟨d3, m3, y3⟩ ⟨d4, m4, y4⟩
      some s!"{r.name} {b2s (Generated.relIsEqual r)}{b2s (Generated.relIsPartiallyEqual r)}{b2s (Generated.relIsNotEqual r)}"
    | _ => some "bad-op"
  | "cmpi" =>
    match parseInts rest with
    | some [a, b, c, d] => some (compare a b c d).name
    | _ => some "bad-op"
  | "date" =>
    -- date d m y : start/end day number (unix days), period length, Years as y num den
    match parseNats rest with
    | some [d, m, y] =>
      let dt : Date := ⟨d, m, y⟩
      some s!"{dt.firstDay - 719163} {dt.lastDay - 719163} {dt.periodDays} {dt.year} {dt.yearsNum} {dt.yearsDen}"
    | _ => some "bad-op"
  | "before" =>
    -- before d m y d m y [same] : IsBefore, IsAfter, exact tie
    match parseNats (rest.take 6) with
    | some [d1, m1, y1, d2, m2, y2] =>
      let a : Date := ⟨d1, m1, y1⟩
      let b : Date := ⟨d2, m2, y2⟩
      some s!"{b2s (a.isBefore b)}{b2s (a.isAfter b)}{b2s (!(a.isBefore b) && !(a.isAfter b))}"
    | _ => some "bad-op"
  | "yearsf" =>
    -- yearsf d m y : Date.Years() as the binary64 value itself, in lowest terms mant/2^frac
    match parseNats rest with
    | some [d, m, y] =>
      let v := F64.normalize (F64.years ⟨d, m, y⟩)
      some s!"{v.mant} {v.frac}"
    | _ => some "bad-op"
  | "beforef" =>
    -- beforef d m y d m y : IsBefore, IsAfter decided on the binary64 values (no inconclusive ties)
    match parseNats rest with
    | some [d1, m1, y1, d2, m2, y2] =>
      let a := F64.years ⟨d1, m1, y1⟩
      let b := F64.years ⟨d2, m2, y2⟩
      some s!"{b2s (decide (F64.lt a b))}{b2s (decide (F64.lt b a))}"
    | _ => some "bad-op"
  | "minmax" =>
    match parseNats rest with
    | some ns =>
      let rec triples : List Nat → List Date
        | d :: m :: y :: more => ⟨d, m, y⟩ :: triples more
        | _ => []
      let ds := triples ns
      let show_ (o : Option Nat) : String := match o with | some i => toString i | none => "-1"
      some s!"{show_ (minimumIdx ds)} {show_ (maximumIdx ds)}"
    | _ => some "bad-op"
  | _ => none

end Driver
