import Gedcom.Model.Ident
import Driver.Util
import Driver.Tree
namespace Driver
open Gedcom

def showHexList (l : List Str) : String :=
  l.foldl (fun acc s => acc ++ " " ++ toHex s) (toString l.length)

/-- the `k`-th node of a tree in preorder -/
def preorderIds (t : INode) : List Nat := t.ids

/-- requests about node equality and deep copies (C07) -/
def handleEqual (cmd : String) (rest : List String) : Option String :=
  match cmd with
  | "deq" =>
    -- deq <forest of two trees a b> : Equals(a,b) Equals(b,a) DeepEqual(a,b) DeepEqual(b,a)
    match parseForest rest with
    | some ([a, b], []) =>
      some s!"{b2s (equalsShallow a b)}{b2s (equalsShallow b a)} {b2s (deepEqual a b)}{b2s (deepEqual b a)}"
    | _ => some "bad-op"
  | "deqn" =>
    -- deqn <forest l> <forest r> : DeepEqualNodes(l, r)
    match parseForest rest with
    | some (l, rest') =>
      match parseForest rest' with
      | some (r, []) => some (b2s (deepEqualNodes l r))
      | _ => some "bad-op"
    | none => some "bad-op"
  | "copy" =>
    -- copy <forest of one tree> : the source objects are numbered 0.. in preorder
    match parseForest rest with
    | some ([t], []) =>
      let src := (labelNode 0 t).1
      let n := (labelNode 0 t).2
      match deepCopy n src with
      | .panic => some "panic"
      | .ok c _ writes fams =>
        let fresh := c.ids.all fun i => !src.ids.contains i
        let srcWritten := writes.any fun i => src.ids.contains i
        some s!"ok fresh={b2s fresh} srcwritten={b2s srcWritten} fams={showHexList fams} copy={showNode c.erase} render={toHex (render (some 0) c.erase)}"
    | _ => some "bad-op"
  | "mut" =>
    -- mut <side s|c> <k> <op> <arg1> <arg2> <forest of one tree>
    --   op = add <hex tag> <hex value> | del <j> - | clear - -
    -- copies the tree, mutates the k-th node (preorder) of the source / of the copy, then renders both
    match rest with
    | side :: k :: op :: a1 :: a2 :: more =>
      match parseForest more, k.toNat? with
      | some ([t], []), some k =>
        let src := (labelNode 0 t).1
        let n := (labelNode 0 t).2
        match deepCopy n src with
        | .panic => some "panic"
        | .ok c next _ _ =>
          let target := if side == "s" then k else n + k
          let m : Option Mut :=
            match op with
            | "add" => do
              let tg ← fromHex a1
              let v ← fromHex a2
              pure (Mut.add target (.mk next tg v [] []))
            | "del" => a1.toNat?.map (Mut.del target)
            | "clear" => some (Mut.clear target)
            | _ => none
          match m with
          | none => some "bad-op"
          | some m =>
            some s!"{toHex (render (some 0) (applyMut m src).erase)} {toHex (render (some 0) (applyMut m c).erase)}"
      | _, _ => some "bad-op"
    | _ => some "bad-op"
  | _ => none

end Driver
