import Gedcom.Model.Ident
import Gedcom.Model.CopyDoc
import Gedcom.Model.EqualTies
import Gedcom.Model.DateGuard
import Driver.Util
import Driver.Tree
namespace Driver
open Gedcom

def showHexList (l : List Str) : String :=
  l.foldl (fun acc s => acc ++ " " ++ toHex s) (toString l.length)

/-- the `k`-th node of a tree in preorder -/
def preorderIds (t : INode) : List Nat := t.ids

mutual
/-- the node with object id `k` -/
def findId (k : Nat) : INode → Option INode
  | .mk i t v p ks => if i == k then some (.mk i t v p ks) else findIdList k ks
def findIdList (k : Nat) : List INode → Option INode
  | [] => none
  | n :: ns => match findId k n with | some x => some x | none => findIdList k ns
end

/-- a forest of at most one tree = an optional node (nil) -/
def parseOpt (toks : List String) : Option (Option Node × List String) :=
  match parseForest toks with
  | some ([], rest) => some (none, rest)
  | some ([t], rest) => some (some t, rest)
  | _ => none

def parseOpts : Nat → List String → Option (List (Option Node) × List String)
  | 0, toks => some ([], toks)
  | k + 1, toks => do
    let (a, rest) ← parseOpt toks
    let (as, rest) ← parseOpts k rest
    pure (a :: as, rest)

def parseOptList (toks : List String) : Option (List (Option Node) × List String) :=
  match toks with
  | n :: rest => do let n ← n.toNat?; parseOpts n rest
  | [] => none

/-- `<k> (<forest>)^k`, the objects numbered consecutively in preorder across the documents -/
def parseDocs : Nat → Nat → List String → Option (List (List INode) × Nat × List String)
  | 0, next, toks => some ([], next, toks)
  | k + 1, next, toks => do
    let (f, rest) ← parseForest toks
    let lab := labelList next f
    let (ds, n, rest') ← parseDocs k lab.2 rest
    pure (lab.1 :: ds, n, rest')

/-- `-` (DeepCopy) | `w:<hex>,<hex>…` (WhitelistTagFilter) | `b:<hex>,…` (BlacklistTagFilter; `b:` = no tag) -/
def parseFilter (s : String) : Option (Option (Bool × List Str)) :=
  if s == "-" then some none
  else
    let white := s.startsWith "w:"
    if !(white || s.startsWith "b:") then none else
    let body := (s.drop 2).toString
    let toks := if body.isEmpty then [] else body.splitOn ","
    (toks.mapM fromHex).map fun tags => some (white, tags)

def parseOps : List String → Option (List CopyOp)
  | [] => some []
  | a :: b :: c :: f :: rest => do
    let a ← a.toNat?; let b ← b.toNat?; let c ← c.toNat?
    let f ← parseFilter f
    let ops ← parseOps rest
    pure ({ src := a, node := b, dst := c, filter := f } :: ops)
  | _ => none

def showNats (l : List Nat) : String :=
  if l.isEmpty then "-" else ",".intercalate (l.map toString)

def showEvent (e : Option CopyEvent) : String :=
  match e with
  | none => "[noop]"
  | some e =>
    let c := e.result.copy
    s!"[ok first={e.start} n={c.ids.length} fresh={b2s (c.ids.all fun i => decide (e.start ≤ i))} t={showNode c.erase} fam={showNats (match e.op.filter with | none => roleFamilies e.ctx (e.start + c.ids.length) e.source | some _ => (roleIds c).map fun _ => e.start + c.ids.length)} doc={showNats ((docBearing c).map fun _ => e.op.dst)} added={e.result.famAdds.length}]"

def distinctPtrs (recs : List INode) : List Str :=
  (recs.map (·.ptr)).foldl (fun acc p => if p.isEmpty || acc.contains p then acc else acc ++ [p]) []

def showDocSt (d : DocSt) : String :=
  let ptrs := distinctPtrs d.nodes
  let look := ptrs.map fun p => match d.nodeByPointer p with | some i => toString i | none => "nil"
  s!"[ids={showNats (d.nodes.map (·.id))} text={toHex ((d.nodes.map fun r => render (some 0) r.erase).foldl (· ++ ·) [])} ptr={if look.isEmpty then "-" else ",".intercalate look} fams={showNats d.families}]"

/-- requests about node equality and deep copies (C07) -/
def handleEqual (cmd : String) (rest : List String) : Option String :=
  match cmd with
  | "deq" =>
    -- deq <forest of two trees a b> : Equals(a,b) Equals(b,a) DeepEqual(a,b) DeepEqual(b,a)
    match parseForest rest with
    | some ([a, b], []) =>
      some s!"{b2s (equalsShallow a b)}{b2s (equalsShallow b a)} {b2s (deepEqual a b)}{b2s (deepEqual b a)}{tieMark [a] [b]}"
    | _ => some "bad-op"
  | "dsym" =>
    -- dsym <hex a> <hex b> : DateNode.Equals both ways; is Date.Equals symmetric on the start pair
    --   and on the end pair (model: not `asymPair`); are the two values in the plain class
    match rest with
    | [ha, hb] =>
      match fromHex ha, fromHex hb with
      | some a, some b =>
        let ra := parseDateRange a
        let rb := parseDateRange b
        let tie := if dateValuesTie a b then " ~tie" else ""
        some s!"{b2s (dateValueEquals a b)}{b2s (dateValueEquals b a)} sym={b2s (!ra.start.asymPair rb.start)}{b2s (!ra.end_.asymPair rb.end_)} plain={b2s (plainDateValue a)}{b2s (plainDateValue b)}{tie}"
      | _, _ => some "bad-op"
    | _ => some "bad-op"
  | "deqn" =>
    -- deqn <forest l> <forest r> : DeepEqualNodes(l, r)
    match parseForest rest with
    | some (l, rest') =>
      match parseForest rest' with
      | some (r, []) => some (b2s (deepEqualNodes l r) ++ tieMark l r)
      | _ => some "bad-op"
    | none => some "bad-op"
  | "copy" =>
    -- copy <forest of one tree> : the source objects are numbered 0.. in preorder
    match parseForest rest with
    | some ([t], []) =>
      let src := (labelNode 0 t).1
      let n := (labelNode 0 t).2
      match deepCopy n src with
      | .panic => some "panic"
      | .ok c _ writes fams =>
        let fresh := c.ids.all fun i => !src.ids.contains i
        let srcWritten := writes.any fun i => src.ids.contains i
        some s!"ok fresh={b2s fresh} srcwritten={b2s srcWritten} fams={showHexList fams} copy={showNode c.erase} render={toHex (render (some 0) c.erase)}"
    | _ => some "bad-op"
  | "mut" =>
    -- mut <side s|c> <k> <op> <arg1> <arg2> <forest of one tree>
    --   op = add <hex tag> <hex value> | del <j> - | clear - -
    -- copies the tree, mutates the k-th node (preorder) of the source / of the copy, then renders both
    match rest with
    | side :: k :: op :: a1 :: a2 :: more =>
      match parseForest more, k.toNat? with
      | some ([t], []), some k =>
        let src := (labelNode 0 t).1
        let n := (labelNode 0 t).2
        match deepCopy n src with
        | .panic => some "panic"
        | .ok c next _ _ =>
          let target := if side == "s" then k else n + k
          let m : Option Mut :=
            match op with
            | "add" => do
              let tg ← fromHex a1
              let v ← fromHex a2
              pure (Mut.add target (.mk next tg v [] []))
            | "del" => a1.toNat?.map (Mut.del target)
            | "clear" => some (Mut.clear target)
            | _ => none
          match m with
          | none => some "bad-op"
          | some m =>
            some s!"{toHex (render (some 0) (applyMut m src).erase)} {toHex (render (some 0) (applyMut m c).erase)}"
      | _, _ => some "bad-op"
    | _ => some "bad-op"
  | "copyd" =>
    -- copyd <same 0|1> <ctx -|k> <k> <forest = records of the source document>
    --   objects of the document are numbered 0.. in preorder; copy object k into the same document
    --   (same=1) or into an empty one; ctx = the family (an object of the document) that the first
    --   role node not below a FAM belongs to
    match rest with
    | same :: ctx :: k :: more =>
      match parseForest more, k.toNat? with
      | some (f, []), some k =>
        let lab := labelList 0 f
        let recs := lab.1
        let n := lab.2
        match findIdList k recs with
        | none => some "bad-op"
        | some t =>
          let ctx' : Option (Nat × Str) :=
            match ctx.toNat? with
            | some c => (findIdList c recs).map fun x => (c, x.ptr)
            | none => none
          let dst : Doc := if same == "1" then recs else []
          match copyIntoDoc ctx' dst n t with
          | none => some "panic"
          | some r =>
            let added := r.doc.drop dst.length
            let fresh := r.copy.ids.all fun i => decide (n ≤ i)
            let prefixOK := (r.doc.take dst.length).map (·.id) == dst.map (·.id)
            let look := r.famAdds.filter (fun p => !p.isEmpty) |>.map fun p =>
              match r.doc.lookup p with
              | some i => b2s (decide (n ≤ i))
              | none => "?"
            some s!"ok fresh={b2s fresh} prefix={b2s prefixOK} added={showForest (added.map (·.erase))} redirected={String.join look} copy={showNode r.copy.erase}"
      | _, _ => some "bad-op"
    | _ => some "bad-op"
  | "copydoc" =>
    -- copydoc <ndocs> (<forest>)^ndocs (<src> <object> <dst> <filter>)* : a sequence of DeepCopy
    --   (filter `-`) and Filter (`w:tags` / `b:tags`) calls
    --   between documents; answers what every call returned and the documents afterwards
    match rest with
    | k :: more =>
      match k.toNat? with
      | some k =>
        match parseDocs k 0 more with
        | some (ds, n, opsToks) =>
          match parseOps opsToks with
          | some ops =>
            let w : World := ⟨ds.map DocSt.ofRecords, n⟩
            let r := w.run ops
            some (" ".intercalate (r.2.map showEvent ++ r.1.docs.map showDocSt))
          | none => some "bad-op"
        | none => some "bad-op"
      | none => some "bad-op"
    | _ => some "bad-op"
  | "filterdoc" =>
    -- filterdoc <white 0|1> <ntags> <hex tag>^ntags <same 0|1> <k> <forest = records of the document>
    --   Filter(object k, the same document | an empty document, Whitelist/BlacklistTagFilter(tags))
    match rest with
    | white :: nt :: more =>
      match nt.toNat? with
      | some nt =>
        match (more.take nt).mapM fromHex, more.drop nt with
        | some tags, same :: k :: more' =>
          match parseForest more', k.toNat? with
          | some (f, []), some k =>
            let lab := labelList 0 f
            match findRec k lab.1 with
            | none => some "bad-op"
            | some (r, t) =>
              let dst := if same == "1" then DocSt.ofRecords lab.1 else DocSt.ofRecords []
              let out := filterIntoDoc (ctxOf r) dst lab.2 (tagFilter (white == "1") tags) t
              match out.1 with
              | .nil => some "nil"
              | .panic => some "panic"
              | .ok res =>
                let c := res.copy
                some s!"ok first={lab.2} n={c.ids.length} t={showNode c.erase} fam={showNats ((roleIds c).map fun _ => lab.2 + c.ids.length)} doc={(docBearing c).length} {showDocSt out.2}"
          | _, _ => some "bad-op"
        | _, _ => some "bad-op"
      | none => some "bad-op"
    | _ => some "bad-op"
  | "deqo" =>
    -- deqo <forest of 0|1> <forest of 0|1> : DeepEqual where either side may be nil
    match parseOpt rest with
    | some (a, rest') =>
      match parseOpt rest' with
      | some (b, []) => some (b2s (deepEqualOpt a b) ++ tieMark a.toList b.toList)
      | _ => some "bad-op"
    | none => some "bad-op"
  | "deqno" =>
    -- deqno <n> (<forest of 0|1>)^n <m> (<forest of 0|1>)^m : DeepEqualNodes with nil elements
    match parseOptList rest with
    | some (l, rest') =>
      match parseOptList rest' with
      | some (r, []) => some (b2s (deepEqualNodesOpt l r) ++ tieMark (l.filterMap id) (r.filterMap id))
      | _ => some "bad-op"
    | none => some "bad-op"
  | "copynil" =>
    -- copynil <forest of one tree> : DeepCopy(node, nil)
    match parseForest rest with
    | some ([t], []) =>
      let src := (labelNode 0 t).1
      if copyNilDocPanics src then some "panic"
      else some s!"ok {toHex (render (some 0) (copyTree (labelNode 0 t).2 src).1.erase)}"
    | _ => some "bad-op"
  | _ => none

end Driver
