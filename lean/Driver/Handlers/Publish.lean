import Gedcom.Model.PublishNames
import Gedcom.Model.PublishProtocol
import Driver.Util
namespace Driver
open Gedcom Gedcom.Publish

/-- `<n> <hex>…` : a counted list of byte strings -/
def c19TakeStrs (toks : List String) : Option (List Str × List String) :=
  match toks with
  | n :: r =>
    match n.toNat? with
    | some n =>
      match (r.take n).mapM fromHex with
      | some l => if l.length == n then some (l, r.drop n) else none
      | none => none
    | none => none
  | [] => none

def c19JoinHex (l : List Str) : String := " ".intercalate (toString l.length :: l.map toHex)

def c19StrLt : Str → Str → Bool
  | [], [] => false
  | [], _ :: _ => true
  | _ :: _, [] => false
  | a :: as, b :: bs => a < b || (a == b && c19StrLt as bs)

def c19Sort (l : List Str) : List Str := l.mergeSort (fun a b => !c19StrLt b a)

def c19Bits (s : String) : List Bool := s.toList.map (· == '1')

/-- requests about file naming and the publish protocol (C19) -/
def handlePublish (cmd : String) (rest : List String) : Option String :=
  match cmd with
  | "c19san" =>
    match rest with
    | [h] => match fromHex h with | some s => some (toHex (sanitize s)) | none => some "bad-op"
    | _ => some "bad-op"
  | "c19keys" =>   -- c19keys <places> <source pointers> <names>
    match c19TakeStrs rest with
    | some (places, r) =>
      match c19TakeStrs r with
      | some (ptrs, r) =>
        match c19TakeStrs r with
        | some (names, []) => some (c19JoinHex (individualKeys names (places ++ reservedKeys ptrs)))
        | _ => some "bad-op"
      | none => some "bad-op"
    | none => some "bad-op"
  | "c19pind" =>   -- c19pind <i> <hidden bits|-> <places> <source pointers> <names>
    match rest with
    | i :: h :: r =>
      match i.toNat?, c19TakeStrs r with
      | some i, some (places, r) =>
        match c19TakeStrs r with
        | some (ptrs, r) =>
          match c19TakeStrs r with
          | some (names, []) =>
            some (toHex (pageIndividualV names (if h == "-" then [] else c19Bits h) (places ++ reservedKeys ptrs) i))
          | _ => some "bad-op"
        | none => some "bad-op"
      | _, _ => some "bad-op"
    | _ => some "bad-op"
  | "c19pinds" =>
    match rest with
    | [n] => match n.toNat? with | some n => some (toHex (pageIndividuals (UInt8.ofNat n))) | none => some "bad-op"
    | _ => some "bad-op"
  | "c19psrc" =>
    match rest with
    | [h] => match fromHex h with | some s => some (toHex (pageSource s)) | none => some "bad-op"
    | _ => some "bad-op"
  | "c19letters" =>
    match c19TakeStrs rest with
    | some (surnames, []) => some (toHex (indexLetters surnames))
    | _ => some "bad-op"
  | "c19slink" =>
    match rest with
    | [h] => match fromHex h with | some s => some (toHex (surnameLinkPage s)) | none => some "bad-op"
    | _ => some "bad-op"
  | "c19pretty" =>  -- c19pretty <PLAC value> : the name it is listed under
    match rest with
    | [h] => match fromHex h with | some v => some (toHex (prettyOf v)) | none => some "bad-op"
    | _ => some "bad-op"
  | "c19pents" =>  -- c19pents <source pointers> <PLAC values in document order> : entries sorted by key
    match c19TakeStrs rest with
    | some (ptrs, r) =>
      match c19TakeStrs r with
      | some (vs, []) =>
        let es := (placeEntriesR (reservedKeys ptrs) (vs.map prettyOf)).mergeSort (fun a b => !c19StrLt b.1 a.1)
        some (c19JoinHex (es.flatMap fun kv => [kv.1, kv.2]))
      | _ => some "bad-op"
    | none => some "bad-op"
  | "c19pplace" =>  -- c19pplace <pretty> <source pointers> <PLAC values in document order>
    match rest with
    | h :: r =>
      match fromHex h, c19TakeStrs r with
      | some p, some (ptrs, r) =>
        match c19TakeStrs r with
        | some (vs, []) => some (toHex (pagePlace p (placeEntriesR (reservedKeys ptrs) (vs.map prettyOf))))
        | _ => some "bad-op"
      | _, _ => some "bad-op"
    | _ => some "bad-op"
  | "c19files" =>  -- c19files <6 option bits> <letters hex> <hidden bits|-> <names> <PLAC values> <sourcePtrs>
    match rest with
    | o :: l :: h :: r =>
      match c19Bits o, fromHex l, c19TakeStrs r with
      | [oi, op, of_, on, os, ot], some letters, some (names, r) =>
        match c19TakeStrs r with
        | some (places, r) =>
          match c19TakeStrs r with
          | some (srcs, []) =>
            let s : Site := { names := names, hidden := if h == "-" then [] else c19Bits h, letters := letters,
                              places := places, sourcePtrs := srcs, showIndividuals := oi,
                              showPlaces := op, showFamilies := of_, showSurnames := on, showSources := os,
                              showStatistics := ot }
            let names := c19Sort s.fileNames
            some (c19JoinHex names ++ " notplain=" ++ toString (names.filter (fun n => !plain n)).length)
          | _ => some "bad-op"
        | none => some "bad-op"
      | _, _, _ => some "bad-op"
    | _ => some "bad-op"
  | "c19proto" =>  -- c19proto <jobs> <files> <k> <all 0/1> <seed> : summary of a run under a pseudo-random schedule
    match parseNats rest with
    | some [jobs, n, k, all, seed] =>
      let fails : Writer := fun c => k != 0 && (c + 1 == k || (all == 1 && c + 1 > k))
      let sched := (List.range (4 * n + 2 * jobs + 4)).map fun i => (seed * 2654435761 + i * 40503 + (seed + i) * (i + 7)) % 9973
      let s := runSched jobs fails (4 * n + 2 * jobs + 8) sched (St.init (List.range n) jobs)
      let returned := s.workers.all (fun w => w == .done || w == .failed)
      let ok := (s.log.filter (·.2)).length
      let failed := s.log.length - ok
      -- what every schedule agrees on: returned, err set iff a call failed, and (no failure) all written
      some s!"returned={b2s returned} err={b2s s.err.isSome} failed>0={b2s (failed > 0)} all-written={b2s (ok == n)}"
    | _ => some "bad-op"
  | _ => none

end Driver
