import Gedcom.Model.Living
import Driver.Util
namespace Driver
open Gedcom Gedcom.Living

private def parseVis : String → Option Vis
  | "show" => some .show
  | "hide" => some .hide
  | "placeholder" => some .placeholder
  | _ => none

private def parseSex : String → Sex
  | "m" => .male
  | "f" => .female
  | _ => .unknown

private def str (s : Str) : String := String.ofList (s.map (fun b => Char.ofNat b.toNat))

-- html/constants.go IndividualMaleColor / IndividualFemaleColor; colorClassForSex
private def dotColor : Sex → String
  | .male => "#0275d8" | .female => "#d9534f" | .unknown => "black"
private def btnClass : Sex → String
  | .male => "primary" | .female => "danger" | .unknown => "info"

/-- the HTML the core components write for a fragment (texts are already-escaped byte strings) -/
partial def renderFrag : Frag → String
  | .nothing => ""
  | .raw s => s
  | .text s => str s
  | .dot sex => "<span class=\"Octicon Octicon-primitive-dot\" style=\"color: " ++ dotColor sex ++ "; font-size: 18px\"></span>"
  | .link href body => "<a href=\"" ++ str href ++ "\">" ++ String.join (body.map renderFrag) ++ "</a>"
  | .button sex oc name dates =>
    let onclick := match oc with
      | some t => " onclick=\"location.href='" ++ str t ++ "'\""
      | none => ""
    "<button class=\"btn btn-outline-" ++ btnClass sex ++ " btn-block\"" ++ onclick ++ " type=\"button\"><strong>" ++
      renderFrag name ++ "</strong><br/>" ++ renderFrag dates ++ "&nbsp;</button>"
  | .row cells =>
    "<tr>" ++ String.join (cells.map fun c => "<td scope=\"col\" nowrap=\"nowrap\">" ++ renderFrag c ++ "</td>") ++ "</tr>"

private def hexOfString (s : String) : String := toHex s.toUTF8.toList

/-- parses `<living> <sex> <hasNames> <name> <dates> <page>` -/
private def parsePerson : List String → Option (Option Person × List String)
  | "nil" :: rest => some (none, rest)
  | l :: sx :: hn :: nm :: dt :: pg :: rest => do
    let nm ← fromHex nm
    let dt ← fromHex dt
    let pg ← fromHex pg
    let names := if hn == "1" then [nm] else []
    pure (some ⟨⟨l == "1", parseSex sx⟩, ⟨names, dt, pg, [], [], []⟩⟩, rest)
  | _ => none

def handleLiving (cmd : String) (rest : List String) : Option String :=
  match cmd with
  | "c17living" =>
    match rest with
    | [d, b, n, m] =>
      match b.toNat?, n.toNat?, m.toNat? with
      | some b, some n, some m => some (b2s (isLiving (d == "1") b n m))
      | _, _, _ => some "bad-op"
    | _ => some "bad-op"
  | "c17comp" =>
    -- c17comp <vis> <person> <event date hex> <event descr hex> (event "-" "-" = no place event)
    match rest with
    | v :: more =>
      match parseVis v, parsePerson more with
      | some v, some (p, [ed, ds]) =>
        match fromHex ed, fromHex ds with
        | some ed, some ds =>
          let pe := if ds.isEmpty then "-" else hexOfString (renderFrag (placeEvent p ed (str ds) v))
          some (" ".intercalate
            [hexOfString (renderFrag (individualName p v)), hexOfString (renderFrag (individualDates p v)),
             toHex (pageIndividual p v), hexOfString (renderFrag (individualLink p v)),
             hexOfString (renderFrag (individualButton p v)), pe])
        | _, _ => some "bad-op"
      | _, _ => some "bad-op"
    | _ => some "bad-op"
  | "c17rows" =>
    -- c17rows <vis> (<living> <token>)* : the tokens of the people that get a row / a page, hidden count
    match rest with
    | v :: more =>
      match parseVis v with
      | some v =>
        let rec people : List String → List Person
          | l :: t :: r => ⟨⟨l == "1", .unknown⟩, ⟨[], [], (fromHex t).getD [], [], [], []⟩⟩ :: people r
          | _ => []
        let ps := people more
        let pages := individualPages ps v
        let rows := (listRows ps v).length
        let cnt := match hiddenCount ps v with | some n => toString n | none => "-"
        some s!"{if pages.isEmpty then "-" else ",".intercalate (pages.map toHex)} {rows} {cnt}"
      | none => some "bad-op"
    | _ => some "bad-op"
  | _ => none

end Driver
