import Gedcom.Model.Match
import Driver.Util
namespace Driver.MatH
open Driver
open Gedcom Gedcom.Match

/-! Requests about matching individuals (C11).
    `match <L> <R> <prefer> <minW> <T> <F> <perm>`: persons `id:hexptr:hexuid,hexuid…|_` joined by
    `;` (`_` = empty list); score tables `l,r,num/den;…` (`_` = empty, missing entry = 0);
    `perm` selects the arrival order handed to `winners` (0 = the sequential one).
    `match2` = the second `Compare` of an options value that already ran the same comparison once
    (stale `sentA/sentB`).  Response: sorted `l-r` pairs (`_` = absent side) — one answer per
    resolution of the ambiguous unique-identifier choices, separated by ` | ` —, then `ties=` (in some resolution two uncertain jobs at or above
    the threshold share a score), `ok=` (IdsOK ∧ JobsOK), `amb=` (some left individual has more
    than one unique-identifier candidate). -/

def mParseRat (s : String) : Option Rat :=
  match s.splitOn "/" with
  | [n] => (fun (n : Int) => (n : Rat)) <$> n.toInt?
  | [n, d] => do
    let n ← n.toInt?
    let d ← d.toNat?
    if d = 0 then none else pure ((n : Rat) / (d : Rat))
  | _ => none

def parsePerson (s : String) : Option Person :=
  match s.splitOn ":" with
  | [id, p, us] => do
    let id ← id.toNat?
    let p ← fromHex p
    let us ← if us == "_" then some [] else (us.splitOn ",").mapM fromHex
    pure ⟨id, p, us⟩
  | _ => none

def parsePersons (s : String) : Option (List Person) :=
  if s == "_" then some [] else (s.splitOn ";").mapM parsePerson

def parseScores (s : String) : Option (List (Nat × Nat × Rat)) :=
  if s == "_" then some [] else
  (s.splitOn ";").mapM fun e =>
    match e.splitOn "," with
    | [l, r, v] => do
      let l ← l.toNat?
      let r ← r.toNat?
      let v ← mParseRat v
      pure (l, r, v)
    | _ => none

def lookupScore (t : List (Nat × Nat × Rat)) (l r : Nat) : Rat :=
  match t.find? (fun e => e.1 == l && e.2.1 == r) with
  | some e => e.2.2
  | none => 0

def insertKey (x : Nat × Job) : List (Nat × Job) → List (Nat × Job)
  | [] => [x]
  | y :: ys => if y.1 ≤ x.1 then y :: insertKey x ys else x :: y :: ys

/-- a family of permutations of the arrival order: 0 identity, 1 reverse, otherwise a stable sort
    by a scrambled index -/
def permute (k : Nat) (js : List Job) : List Job :=
  if k = 0 then js else if k = 1 then js.reverse else
  let n := js.length + 1
  let keyed := js.zipIdx.map fun (j, i) => ((i * (2 * k + 1) + k * k) % n, j)
  (keyed.foldr insertKey []).map (·.2)

def showSide : Option Nat → String
  | some n => toString n
  | none => "_"

def insertStr (x : String) : List String → List String
  | [] => [x]
  | y :: ys => if y ≤ x then y :: insertStr x ys else x :: y :: ys

def showRes (rs : List Res) : String :=
  let strs := rs.map fun r => showSide r.1 ++ "-" ++ showSide r.2
  " ".intercalate (strs.foldr insertStr [])

def tiesAbove (minW : Rat) (js : List Job) : Bool := !decide (NoScoreTies minW js)

/-- distinct candidates of `a` as persons -/
def candPersons (R : List Person) (a : Person) : List Person :=
  (uniqueCands R a).foldl (fun acc b => if acc.any (fun c => c.id == b.id) then acc else acc ++ [b]) []

/-- every resolution of the ambiguous choices (left individuals with more than one candidate), at
    most 64 of them -/
def resolutions (L R : List Person) : List (List (Nat × Person)) :=
  let amb := L.filter fun a => (candPersons R a).length > 1
  let all := amb.foldl (fun acc a => acc.flatMap fun asg => (candPersons R a).map fun b => asg ++ [(a.id, b)]) [[]]
  all.take 64

def choiceOf (R : List Person) (asg : List (Nat × Person)) (a : Person) : Option Person :=
  match asg.find? (fun e => e.1 == a.id) with
  | some e => some e.2
  | none => uniqueTarget R a

end Driver.MatH

namespace Driver
open Driver.MatH Gedcom Gedcom.Match

def handleMatch (cmd : String) (rest : List String) : Option String :=
  match cmd with
  | "match" | "match2" =>
    match rest with
    | [l, r, prefer, minW, t, f, k] => some <|
      match parsePersons l, parsePersons r, mParseRat prefer, mParseRat minW, parseScores t, parseScores f, k.toNat? with
      | some L, some R, some prefer, some minW, some T, some F, some k =>
        let sT := lookupScore T
        let sF := lookupScore F
        -- one answer per resolution of the ambiguous unique-identifier choices.  The guards are
        -- evaluated on the job list of THAT resolution; where they fail (score ties at or above
        -- the threshold, or JobsOK violated) a permuted arrival need not give the sequential
        -- result, and the sequential answer is given instead.
        let per := (resolutions L R).map fun asg =>
          let ch := choiceOf R asg
          let s0 : Sent := if cmd == "match2" then sentAfter ch ⟨[], []⟩ L R sT prefer else ⟨[], []⟩
          let js := jobsFrom ch s0 L R sT sF prefer
          let ties := tiesAbove minW js
          let ok := decide (JobsOK L R js)
          let k' := if ties || !ok then 0 else k
          (showRes (winners L R minW (permute k' js)), ties, ok)
        let ok := decide (IdsOK L R) && per.all (fun x => x.2.2)
        let amb := L.any fun a => (uniqueCandidates R a).length > 1
        s!"{" | ".intercalate (per.map (·.1))} ties={b2s (per.any (fun x => x.2.1))} ok={b2s ok} amb={b2s amb}"
      | _, _, _, _, _, _, _ => "bad-op"
    | _ => some "bad-op"
  | _ => none

end Driver
