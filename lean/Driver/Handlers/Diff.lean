import Gedcom.Model.Diff
import Driver.Tree
namespace Driver
open Gedcom

/-- ids of the right tree start here (the left tree is numbered from 0) -/
def c08RightBase : Nat := 1000000

def c08ShowId (i : Nat) : String :=
  if i < c08RightBase then s!"l{i}" else if i < 2 * c08RightBase then s!"r{i - c08RightBase}" else "?"

def c08ShowSlot : Option INode → String
  | some n => c08ShowId n.id
  | none => "-"

/-- preorder dump of a diff: `depth:left:right` per entry -/
partial def c08DumpDiff (depth : Nat) : Diff → List String
  | .mk L R cs => s!"{depth}:{c08ShowSlot L}:{c08ShowSlot R}" :: cs.flatMap (c08DumpDiff (depth + 1))

def c08ShowDiff (d : Diff) : String := " ".intercalate (c08DumpDiff 0 d)

def c08OpOfChar : Char → Option DiffOp
  | 'C' => some .compare | 'S' => some .string | 'E' => some .isDeepEqual
  | 'O' => some .sort | 'T' => some .tag | _ => none

def c08ShowObs : DiffObs → String
  | .unit => "-"
  | .bool b => b2s b
  | .str s => toHex s
  | .tag (some t) => toHex t
  | .tag none => "nil"

/-- requests about node diffs (C08):
    `diff <ops|-> <left tree> <right tree>` — first `g=<guard> d=<DeepEqual> a=<IsDeepEqual>`, then
    CompareNodes and the operations in order; after each
    one its result, the diff and whether either compared tree differs from what it was; stops after
    the first operation that changed a compared tree; otherwise both trees are appended. -/
def handleDiff (cmd : String) (rest : List String) : Option String :=
  match cmd with
  | "diff" =>
    match rest with
    | ops :: toks =>
      (do
        let ops ← if ops == "-" then some [] else ops.toList.mapM c08OpOfChar
        let (lt, toks) ← parseNode toks
        let (rt, toks) ← parseNode toks
        if !toks.isEmpty then none
        let l := (labelNode 0 lt).1
        let r := (labelNode c08RightBase rt).1
        let w0 := DiffWorld.init l r
        let line (w : DiffWorld) (o : String) : String :=
          s!"{o} [{c08ShowDiff w.diff}] {b2s (!(w.left.erase == l.erase))}{b2s (!(w.right.erase == r.erase))}"
        let changed (w : DiffWorld) : Bool := !(w.left.erase == l.erase) || !(w.right.erase == r.erase)
        -- as the harness does, stop at the first operation that modified a compared tree: the trees
        -- are no longer what was compared (and the unrepaired code keeps doubling them)
        let rec go (w : DiffWorld) (ops : List DiffOp) (acc : List String) : List String × Option DiffWorld :=
          match ops with
          | [] => (acc.reverse, some w)
          | op :: more =>
            let r := diffStep w op
            -- a Sort the model cannot predict (more than 20 children compared by a relation that is
            -- not a strict weak order) is marked `~`: the harness sets the case aside
            let o := if op == DiffOp.sort && !w.diff.sortExact then "~" else c08ShowObs r.2
            if changed r.1 then ((line r.1 o :: acc).reverse, none)
            else go r.1 more (line r.1 o :: acc)
        -- the guard of deepEqual_all_two_sided, DeepEqual(l, r), IsDeepEqual of the fresh diff
        let verdict := s!"g={b2s (equivLevelsB l r)} d={b2s (deepEqual l.erase r.erase)} a={b2s w0.diff.isDeepEqual}"
        let (lines, w) := go w0 ops [line w0 "init", verdict]
        match w with
        | some w => pure (" ; ".intercalate lines ++ " ; " ++ showNode w.left.erase ++ " / " ++ showNode w.right.erase)
        | none => pure (" ; ".intercalate lines))
      |>.getD "bad-op"
    | _ => some "bad-op"
  | _ => none

end Driver
