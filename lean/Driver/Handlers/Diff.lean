import Gedcom.Model.Diff
import Driver.Tree
namespace Driver
open Gedcom

/-- ids of the right tree start here (the left tree is numbered from 0) -/
def rightBase : Nat := 1000000

def showId (i : Nat) : String :=
  if i < rightBase then s!"l{i}" else if i < 2 * rightBase then s!"r{i - rightBase}" else "?"

def showSlot : Option INode → String
  | some n => showId n.id
  | none => "-"

/-- preorder dump of a diff: `depth:left:right` per entry -/
partial def dumpDiff (depth : Nat) : Diff → List String
  | .mk L R cs => s!"{depth}:{showSlot L}:{showSlot R}" :: cs.flatMap (dumpDiff (depth + 1))

def showDiff (d : Diff) : String := " ".intercalate (dumpDiff 0 d)

def opOfChar : Char → Option DiffOp
  | 'C' => some .compare | 'S' => some .string | 'E' => some .isDeepEqual
  | 'O' => some .sort | 'T' => some .tag | _ => none

def showObs : DiffObs → String
  | .unit => "-"
  | .bool b => b2s b
  | .str s => toHex s
  | .tag (some t) => toHex t
  | .tag none => "nil"

/-- requests about node diffs (C08):
    `diff <ops|-> <left tree> <right tree>` — CompareNodes, then the operations in order; after each
    one its result, the diff and whether either compared tree differs from what it was; stops after
    the first operation that changed a compared tree; otherwise both trees are appended. -/
def handleDiff (cmd : String) (rest : List String) : Option String :=
  match cmd with
  | "diff" =>
    match rest with
    | ops :: toks =>
      (do
        let ops ← if ops == "-" then some [] else ops.toList.mapM opOfChar
        let (lt, toks) ← parseNode toks
        let (rt, toks) ← parseNode toks
        if !toks.isEmpty then none
        let l := (labelNode 0 lt).1
        let r := (labelNode rightBase rt).1
        let w0 := DiffWorld.init l r
        let line (w : DiffWorld) (o : String) : String :=
          s!"{o} [{showDiff w.diff}] {b2s (!(w.left.erase == l.erase))}{b2s (!(w.right.erase == r.erase))}"
        let changed (w : DiffWorld) : Bool := !(w.left.erase == l.erase) || !(w.right.erase == r.erase)
        -- as the harness does, stop at the first operation that modified a compared tree: the trees
        -- are no longer what was compared (and the unrepaired code keeps doubling them)
        let rec go (w : DiffWorld) (ops : List DiffOp) (acc : List String) : List String × Option DiffWorld :=
          match ops with
          | [] => (acc.reverse, some w)
          | op :: more =>
            let r := diffStep w op
            if changed r.1 then ((line r.1 (showObs r.2) :: acc).reverse, none)
            else go r.1 more (line r.1 (showObs r.2) :: acc)
        let (lines, w) := go w0 ops [line w0 "init"]
        match w with
        | some w => pure (" ; ".intercalate lines ++ " ; " ++ showNode w.left.erase ++ " / " ++ showNode w.right.erase)
        | none => pure (" ; ".intercalate lines))
      |>.getD "bad-op"
    | _ => some "bad-op"
  | _ => none

end Driver
