import Gedcom.Model.Pages
import Gedcom.Model.PagesStats
import Gedcom.Model.PublishHistory
import Driver.Util
namespace Driver
open Gedcom Gedcom.Living Gedcom.Pages

/-- token-stream parser -/
abbrev P := StateT (List String) Option

private def tok : P String := do
  match (← get) with
  | t :: r => set r; pure t
  | [] => failure

private def pNat : P Nat := do
  match (← tok).toNat? with
  | some n => pure n
  | none => failure

private def pHex : P Str := do
  match fromHex (← tok) with
  | some s => pure s
  | none => failure

private def pOpt : P (Option Nat) := do
  let t ← tok
  if t == "-" then pure none else
  match t.toNat? with
  | some n => pure (some n)
  | none => failure

private def pList {α} (item : P α) : P (List α) := do
  let n ← pNat
  let rec go : Nat → P (List α)
    | 0 => pure []
    | k + 1 => do
      let x ← item
      let xs ← go k
      pure (x :: xs)
  go n

private def pPlEv : P PlEv := do
  let key ← pHex; let pretty ← pHex; let country ← pHex; let date ← pHex; let descr ← pHex; let sk ← pHex
  pure ⟨key, pretty, country, date, descr, sk⟩

private def pDesc : P Desc := do
  let t ← tok
  if t == "N" then pure .none
  else if t == "U" then pure .unknown
  else if t == "S-" then pure (.spouse none)
  else match (t.drop 1).toString.toNat? with
    | some n => pure (.spouse (some n))
    | none => failure

private def pPerson : P PPerson := do
  let living ← tok
  let sex ← tok
  let hasName ← tok
  let name ← pHex
  let dates ← pHex
  let page ← pHex
  let surname ← pHex
  let cells ← pList pHex
  let idxL ← pNat
  let listL ← pNat
  let sortKey ← pHex
  let title ← pHex
  let nameCard ← pList pHex
  let altCard ← pList pHex
  let events ← pList (do let c ← pList pHex; let d ← pDesc; pure (⟨c, d⟩ : EvRow))
  let plevs ← pList pPlEv
  let parentFams ← pList (do let a ← pOpt; let b ← pOpt; pure (a, b))
  let spouses ← pList (do
    let s ← pOpt
    let hasFam ← tok
    if hasFam == "1" then do
      let cs ← pList pOpt
      pure (s, some cs)
    else pure (s, none))
  let unknownFams ← pList (pList pOpt)
  let sx : Sex := if sex == "m" then .male else if sex == "f" then .female else .unknown
  pure { pub := ⟨living == "1", sx⟩
         st := ⟨parentFams, spouses, unknownFams, []⟩
         priv := ⟨if hasName == "1" then [name] else [], dates, page, cells, surname, []⟩
         pp := ⟨UInt8.ofNat idxL, UInt8.ofNat listL, sortKey, title, nameCard, altCard, events, plevs⟩ }

private def pDoc : P DocA := do
  let people ← pList pPerson
  let fams ← pList (do let h ← pOpt; let w ← pOpt; let d ← pHex; pure (⟨h, w, d⟩ : FamA))
  let others ← pList pPlEv
  let ptrs ← pList pHex
  pure ⟨people, fams, others, ptrs⟩

/-- the extension of the document for `c17stats`: the event tag names of every person, MARR/DIV per
    family, the SOUR records -/
private def pDocX : P DocX := do
  let d ← pDoc
  let evTags ← pList (pList pHex)
  let famEv ← pList (do let m ← tok; let v ← tok; pure (m == "1", v == "1"))
  let sources ← pList (do
    let ptr ← pHex; let title ← pHex
    let nodes ← pList (do let t ← pHex; let v ← pHex; pure (t, v))
    pure (⟨ptr, title, nodes⟩ : SrcA))
  let people := (d.people.zip (evTags ++ List.replicate d.people.length [])).map
    (fun (p, t) => { p with st := { p.st with evTags := t } })
  pure ⟨{ d with people := people }, famEv, sources⟩

private def showAtom : Atom → String
  | .T s => "T" ++ toHex s
  | .H s => "H" ++ toHex s

def handlePages (cmd : String) (rest : List String) : Option String :=
  match cmd with
  | "c17site" =>
    -- c17site <vis> <6 option bits> <doc> : every modelled file with its skeleton
    match rest with
    | v :: o :: more =>
      let vis : Option Vis := match v with
        | "show" => some .show | "hide" => some .hide | "placeholder" => some .placeholder | _ => none
      match vis, pDoc.run more with
      | some vis, some (d, []) =>
        let b (i : Nat) : Bool := o.toList.getD i '0' == '1'
        let opts : Opts := ⟨b 0, b 1, b 2, b 3, b 4, b 5⟩
        let files := site generatedFlags d vis opts
        -- drift check against the naming model of C19 (Gedcom.Model.PublishNames): the page keys and
        -- place keys this document carries are the ones getUniqueKey / sanitize assign
        let pls := if opts.pla then places generatedFlags d vis else []
        -- the page names the real API reports (show mode) are the ones the shared naming model assigns,
        -- and the place keys read from the real site are the ones it computes
        let keys := pageKeys generatedFlags d vis opts
        let keysOk := vis != .show ||
          keys.map (fun k => (k.map (· ++ Publish.html)).getD [35]) == d.people.map (fun p => p.priv.page)
        let placesOk := (placeEvents generatedFlags d vis).all (fun e => placeKeyOf d e.2 == e.2.key)
        some (" ".intercalate (files.map fun f => toHex f.1 ++ "=" ++ ",".intercalate (f.2.map showAtom)) ++
          s!" names={if keysOk then "ok" else "individual-keys-differ"},{if placesOk then "ok" else "place-keys-differ"}")
      | _, _ => some "bad-op"
    | _ => some "bad-op"
  | "c17stats" =>
    -- c17stats <vis> <6 option bits> <doc> <event tags, MARR/DIV, sources> : sources.html, the source
    -- pages and statistics.html with their skeletons, and the numbers that count people
    match rest with
    | v :: o :: more =>
      let vis : Option Vis := match v with
        | "show" => some .show | "hide" => some .hide | "placeholder" => some .placeholder | _ => none
      match vis, pDocX.run more with
      | some vis, some (x, []) =>
        let b (i : Nat) : Bool := o.toList.getD i '0' == '1'
        let opts : Opts := ⟨b 0, b 1, b 2, b 3, b 4, b 5⟩
        let files := extraSite generatedFlags generatedSFlags x vis opts
        let c := counts generatedFlags generatedSFlags x.d vis opts
        let badge := match c.individualsBadge with | some n => toString n | none => "-"
        some (" ".intercalate (files.map fun f => toHex f.1 ++ "=" ++ ",".intercalate (f.2.map showAtom)) ++
          s!" counts={badge},{c.statsTotal},{c.statsLiving},{c.statsDead},{c.eventsTotal}")
      | _, _ => some "bad-op"
    | _ => some "bad-op"
  | "c17history" =>
    -- c17history <n> (<living bit> <surname>)* <m> (new | pub:<vis>)* : the surname set every publish of
    -- the history is given (sorted), by the memo machine at the regenerated facts
    let parse : P (List Person × List History.Op) := do
      let ps ← pList (do
        let l ← tok; let s ← pHex
        pure (⟨⟨l == "1", .unknown⟩, { (default : Priv) with surname := s }⟩ : Person))
      let ops ← pList (do
        let t ← tok
        if t == "new" then pure History.Op.new
        else if t == "pub:show" then pure (History.Op.pub .show)
        else if t == "pub:hide" then pure (History.Op.pub .hide)
        else if t == "pub:placeholder" then pure (History.Op.pub .placeholder)
        else failure)
      pure (ps, ops)
    match parse.run rest with
    | some ((ps, ops), []) =>
      let sets := History.run History.generatedHFlags generatedFlags ps [] ops
      some (" | ".intercalate (sets.map fun s =>
        let l := sortBy id s
        " ".intercalate (toString l.length :: l.map toHex)))
    | _ => some "bad-op"
  | _ => none

end Driver
