import Gedcom.Model.Warnings
import Gedcom.Model.WarningsTies
import Gedcom.Model.WarningsSpec
import Driver.Util
namespace Driver
open Gedcom Gedcom.Warn

/-
  warn <d> <m> <y> <nrec> rec*          (today, then the records in file order)
  rec  := I <ptr> <nsex> sex* <nev> ev*            sex := M | F | X
        | F <ptr> <husb|-> <wife|-> <nchil> ptr* <nev> ev*
  ev   := <kind> <ndates> date*                    kind := BIRT|BAPM|BAPL|DEAT|BURI|MARR|OTHER
  date := h<hex of the DATE value>   (parsed here with C04's `parseDateRange`; `h-` = empty value)
          | <d>.<m>.<y> | b<label>     (pre-classified, kept for replays of round-1 evidence)
  every date is labelled with its position in the request (0-based)
  warnviews <d> <m> <y> <lo> <hi> <nrec> rec*   (the views and guards of Model/WarningsSpec.lean)
    answer: for every DATE in file order `<valid><parseErr> <dayS> <dayE> <skey> <ekey>`, `;`-separated
    (`-` when there is none), then ` | sib=<0|1> whole=<0|1> past=<0|1>`: the guards SibDates lo hi,
    WholeDates lo hi, PastDates today of the theorems on general dates; then ` | ` and the selections of
    the specification: for every individual `I<ptr> <estBirthS> <estDeathS>`, for every MARR node `M<fam>
    <firstMin skey> <firstMax ekey>` over its valid dates, each selected DATE shown by its views
    `<dayS>,<dayE>,<skey>,<ekey>` (`-` when there is none), `;`-separated
  answer: the warnings in the order of Document.Warnings(), `;`-separated, `-` when none; then, when
  some decision rests on an exact Years() tie that float64 may break either way, ` ~ ` and the
  flagged decisions (`CBBP parent child`, `OLD indi`, `MOOR fam spouse`), `;`-separated
-/

def parseKind : String → Option EvKind
  | "BIRT" => some .birt | "BAPM" => some .bapm | "BAPL" => some .bapl | "DEAT" => some .deat
  | "BURI" => some .buri | "MARR" => some .marr | "OTHER" => some .other | _ => none

def showKind : EvKind → String
  | .birt => "BIRT" | .bapm => "BAPM" | .bapl => "BAPL" | .deat => "DEAT"
  | .buri => "BURI" | .marr => "MARR" | .other => "OTHER"

def parseDateV (s : String) : Option DateV :=
  if s.startsWith "h" then (fromHex (s.drop 1).toString).map fun v => classifyDate (parseDateRange v)
  else if s.startsWith "b" then (s.drop 1).toString.toNat?.map DateV.bad
  else match s.splitOn "." with
    | [d, m, y] => do
      let d ← d.toNat?
      let m ← m.toNat?
      let y ← y.toNat?
      pure (DateV.ok ⟨d, m, y⟩)
    | _ => none

/-- take `n` items with the given item parser -/
def takeN {α} (item : List String → Option (α × List String)) : Nat → List String → Option (List α × List String)
  | 0, toks => some ([], toks)
  | n+1, toks => do
    let (x, rest) ← item toks
    let (xs, rest) ← takeN item n rest
    pure (x :: xs, rest)

def takeCount {α} (item : List String → Option (α × List String)) (toks : List String) :
    Option (List α × List String) :=
  match toks with
  | n :: rest => do
    let n ← n.toNat?
    takeN item n rest
  | [] => none

def tokNat : List String → Option (Nat × List String)
  | t :: rest => t.toNat?.map (·, rest)
  | [] => none

def tokDate : List String → Option (DateV × List String)
  | t :: rest => (parseDateV t).map (·, rest)
  | [] => none

def tokSex : List String → Option (Sex × List String)
  | "M" :: rest => some (.m, rest)
  | "F" :: rest => some (.f, rest)
  | "X" :: rest => some (.x, rest)
  | _ => none

def tokOptNat : List String → Option (Option Nat × List String)
  | "-" :: rest => some (none, rest)
  | t :: rest => t.toNat?.map (fun n => (some n, rest))
  | [] => none

def tokEv : List String → Option (Ev × List String)
  | k :: rest => do
    let k ← parseKind k
    let (ds, rest) ← takeCount tokDate rest
    pure (⟨k, ds⟩, rest)
  | [] => none

def tokRec : List String → Option (Rec × List String)
  | "I" :: rest => do
    let (p, rest) ← tokNat rest
    let (sx, rest) ← takeCount tokSex rest
    let (evs, rest) ← takeCount tokEv rest
    pure (.indi ⟨p, sx, evs⟩, rest)
  | "F" :: rest => do
    let (p, rest) ← tokNat rest
    let (h, rest) ← tokOptNat rest
    let (w, rest) ← tokOptNat rest
    let (ch, rest) ← takeCount tokNat rest
    let (evs, rest) ← takeCount tokEv rest
    pure (.fam ⟨p, h, w, ch, evs⟩, rest)
  | _ => none

def showDate : DateV → String
  | .ok d => s!"{d.day}.{d.month}.{d.year}-{d.day}.{d.month}.{d.year}"
  | .bad _ => "0.0.0-0.0.0"
  | .gen _ s e => s!"{s.day}.{s.month}.{s.year}-{e.day}.{e.month}.{e.year}"

/-! labels: every DATE gets its position in the document (records, events, dates in order) -/
def relabelDates : Nat → List DateV → List DateV × Nat
  | n, [] => ([], n)
  | n, x :: xs => let (ys, m) := relabelDates (n + 1) xs; (relabelDate n x :: ys, m)

def relabelEvs : Nat → List Ev → List Ev × Nat
  | n, [] => ([], n)
  | n, e :: es =>
    let (ds, m) := relabelDates n e.dates
    let (rest, k) := relabelEvs m es
    (⟨e.kind, ds⟩ :: rest, k)

def relabelRecs : Nat → List Rec → List Rec
  | _, [] => []
  | n, .indi i :: rs => let (es, m) := relabelEvs n i.events; .indi ⟨i.ptr, i.sexes, es⟩ :: relabelRecs m rs
  | n, .fam f :: rs => let (es, m) := relabelEvs n f.events; .fam ⟨f.ptr, f.husb, f.wife, f.chil, es⟩ :: relabelRecs m rs

def showWarning : Warning → String
  | .childBornBeforeParent f p c => s!"CBBP {f} {p} {c}"
  | .siblingsBornTooClose f a b => s!"SIB {f} {a} {b}"
  | .marriedOutOfRange f s old _ => s!"MOOR {f} {s} {if old then "old" else "young"}"
  | .individualTooOld i => s!"OLD {i}"
  | .incorrectEventOrder i k2 d2 k1 d1 => s!"ORD {i} {showKind k2} {showDate d2} {showKind k1} {showDate d1}"
  | .unparsableDate inFam p l => s!"BAD {if inFam then "F" else "I"} {p} {l}"
  | .multipleSexes i n => s!"SEX {i} {n}"
  | .inverseSpouses f h w => s!"INV {f} {h} {w}"

def allDates (d : Doc) : List DateV :=
  d.flatMap fun
    | .indi i => datesOf i.events
    | .fam f => datesOf f.events

def bit (b : Bool) : String := if b then "1" else "0"

def showViews (x : DateV) : String :=
  s!"{bit x.valid}{bit x.parseErr} {dayS x} {dayE x} {C20.skey x} {C20.ekey x}"

def showSel : Option DateV → String
  | none => "-"
  | some x => s!"{dayS x},{dayE x},{C20.skey x},{C20.ekey x}"

def showSelections (d : Doc) : String :=
  let parts := d.flatMap fun
    | .indi i => [s!"I{i.ptr} {showSel (C20.estBirthS i)} {showSel (C20.estDeathS i)}"]
    | .fam f => (f.events.filter (fun e => e.kind == .marr)).map fun e =>
        let ds := e.dates.filter DateV.valid
        s!"M{f.ptr} {showSel (C20.firstMin C20.skey ds)} {showSel (C20.firstMax C20.ekey ds)}"
  if parts.isEmpty then "-" else ";".intercalate parts

def handleWarnings (cmd : String) (rest : List String) : Option String :=
  match cmd with
  | "warnviews" =>
    match rest with
    | d :: m :: y :: lo :: hi :: toks =>
      match d.toNat?, m.toNat?, y.toNat?, lo.toInt?, hi.toInt?, takeCount tokRec toks with
      | some d, some m, some y, some lo, some hi, some (doc, []) =>
        let doc := relabelRecs 0 doc
        let ds := allDates doc
        let line := if ds.isEmpty then "-" else ";".intercalate (ds.map showViews)
        some (line ++ s!" | sib={bit (decide (C20.SibDates lo hi doc))} whole={bit (decide (C20.WholeDates lo hi doc))} past={bit (decide (C20.PastDates ⟨d, m, y⟩ doc))} | {showSelections doc}")
      | _, _, _, _, _, _ => some "bad-op"
    | _ => some "bad-op"
  | "warn" =>
    match rest with
    | d :: m :: y :: toks =>
      match d.toNat?, m.toNat?, y.toNat?, takeCount tokRec toks with
      | some d, some m, some y, some (doc, []) =>
        let doc := relabelRecs 0 doc
        let ws := warnings doc ⟨d, m, y⟩
        let line := if ws.isEmpty then "-" else ";".intercalate (ws.map showWarning)
        -- decisions that rest on an exact tie float64 cannot be trusted with (Model/WarningsTies.lean):
        -- appended after ` ~ `; the harness accepts their presence or absence
        let flags := (tieFlags doc ⟨d, m, y⟩).eraseDups
        some (if flags.isEmpty then line else line ++ " ~ " ++ ";".intercalate flags)
      | _, _, _, _ => some "bad-op"
    | _ => some "bad-op"
  | _ => none

end Driver
