import Gedcom.Model.DateParse
import Driver.Util
namespace Driver
open Gedcom

def showPDate (d : PDate) : String :=
  s!"{d.day} {d.month} {d.year} {d.constraint.toNat} {b2s d.parseError}"

/-- requests about DATE parsing and printing (C04) -/
def handleDateParse (cmd : String) (rest : List String) : Option String :=
  match cmd with
  | "date-parse" =>
    -- date-parse <hex> : start | end | valid phrase | DateRange.String | DateNode.String
    match rest with
    | [h] =>
      match fromHex h with
      | some s =>
        let r := parseDateRange s
        some s!"{showPDate r.start} | {showPDate r.end_} | {b2s r.isValid}{b2s r.isPhrase} | {toHex r.toString} | {toHex (dateNodeToString r)}"
      | none => some "bad-op"
    | _ => some "bad-op"
  | "date-equals" =>
    -- date-equals <hex> <hex> : DateRange.Equals of the two parsed values, both directions
    match rest with
    | [h1, h2] =>
      match fromHex h1, fromHex h2 with
      | some a, some b =>
        let x := parseDateRange a
        let y := parseDateRange b
        some s!"{b2s (x.equals y)}{b2s (y.equals x)}"
      | _, _ => some "bad-op"
    | _ => some "bad-op"
  | "clean-space" =>
    match rest with
    | [h] => match fromHex h with
      | some s => some (toHex (cleanSpace s))
      | none => some "bad-op"
    | _ => some "bad-op"
  | _ => none

end Driver
